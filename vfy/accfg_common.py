"""Shared by C01/C04/C06/C07: accfg program grammar, generator and the abstract CSR machine."""

from __future__ import annotations

import itertools
import random

import z3
from xdsl.dialects import builtin, func, scf

from . import irsym, sym
from .irsym import Interp, Opaque
from .sym import eng

# ------------------------------------------------------------------ grammar -> MLIR text

ACCS = {
    "acc1": dict(fields=["A", "B"], launch=["launch"], fmap={"A": 0x3D0, "B": 0x3D1}, lmap={"launch": 0x3C0}, barrier=0x3C3),
    "acc2": dict(fields=["X", "Y", "Z"], launch=["launch_go"], fmap={"X": 0x3E0, "Y": 0x3E1, "Z": 0x3E2}, lmap={"launch_go": 0x3F0}, barrier=0x3F3),
    # instruction-configured (RoCC style): <insn>.rs1/.rs2 pairs, values are funct7 codes
    "rocc1": dict(fields=["I1.rs1", "I1.rs2", "I2.rs1", "I2.rs2"], launch=["L.rs1", "L.rs2"],
                  fmap={"I1.rs1": 9, "I1.rs2": 9, "I2.rs1": 10, "I2.rs2": 10}, lmap={"L.rs1": 8, "L.rs2": 8}, barrier=0xBAD),
}

# palette of configurations per accelerator: tuples of value descriptors
# value: ('a',i) arg | ('k',c) const | ('iv',) | ('iva',i) iv+arg | ('ivk',c) iv*c | ('lc',) loop-carried/outer computed
PALETTE = {
    "acc1": [(("a", 0), ("a", 1)), (("a", 2), ("a", 1)), (("a", 0), ("a", 3)), (("iv",), ("a", 1)), (("iva", 2), ("k", 7)),
             (("a", 0), ("ivk", 3)), (("ivk", 4), ("prev+", 1)), (("lck", 3), ("a", 1)), (("lc",), ("iva", 0)),
             # results of the most recent loop with carried values at this level (fall back to arguments elsewhere)
             (("res", 0), ("res", 1)), (("res", 1), ("a", 3)),
             # a value computed earlier in an enclosing block by a "def" statement
             (("a", 0), ("d",)), (("d",), ("a", 1)),
             # the counter of the enclosing loop, seen from a loop nested in it
             (("oiv",), ("a", 1)), (("a", 0), ("oivk", 3)),
             # a value chosen by a pure region op (scf.if) whose body takes the latest "def" value from its surroundings
             (("dsel", 0), ("a", 1)), (("a", 0), ("dsel", 1))],
    "acc2": [(("a", 0), ("a", 1), ("k", 5)), (("a", 3), ("a", 1), ("k", 5)), (("iv",), ("a", 1), ("a", 2))],
    "rocc1": [(("a", 0), ("a", 1), ("a", 2), ("a", 3)), (("a", 0), ("a", 3), ("a", 2), ("a", 3)), (("a", 2), ("a", 1), ("a", 2), ("a", 1)),
              (("iv",), ("a", 1), ("a", 2), ("a", 3)), (("a", 0), ("a", 1), ("a", 2), ("ivk", 5))],
}


def accel_decls():
    out = []
    for name, d in ACCS.items():
        f = ", ".join(f"{k} = {v} : i32" for k, v in d["fmap"].items())
        l = ", ".join(f"{k} = {v} : i32" for k, v in d["lmap"].items())
        if "." in f:
            f = ", ".join(f'{k} = {v} : i32' for k, v in d["fmap"].items())
        out.append(f'  "accfg.accelerator"() <{{name = @{name}, fields = {{{f}}}, launch_fields = {{{l}}}, barrier = {d["barrier"]} : i32}}> : () -> ()')
    return "\n".join(out)


# loop bound kinds: run-time arguments, constant/argument mixes, and all-constant ranges incl. empty ones (lb > ub)
BOUNDS = {"args": ("%lb", "%ub", "%st"), "c01": ("%c0", "%ub", "%c1"), "c0s": ("%c0", "%ub", "%st"),
          "k42": ("%c4", "%c2", "%c1"), "k13": ("%c1", "%c3", "%c1"), "k50s2": ("%c5", "%c0", "%c2"), "k05s2": ("%c0", "%c5", "%c2"),
          # exactly one trip, and two trips with a partial last step ((ub-lb)//step == 1)
          "k01": ("%c0", "%c1", "%c1"), "k04s4": ("%c0", "%c4", "%c4"), "k03s2": ("%c0", "%c3", "%c2"), "k25s2": ("%c2", "%c5", "%c2")}
ALL_BOUNDS = ["args", "c01", "c0s", "k42", "k13", "k50s2", "k05s2", "k01", "k04s4", "k03s2", "k25s2"]
CONST_BOUNDS = ["k42", "k13", "k05s2", "k01", "k04s4", "k03s2", "k25s2"]


class Render:
    def __init__(self):
        self.n = 0
        self.lines = []
        self.ivs = []  # stack of induction variable names
        self.accs = []  # stack of loop-carried i32 values (None for loops without one)
        self.prev = None
        self.last_state = {}  # accelerator -> SSA name of the setup result that is certainly still in effect here
        self.results = [[]]  # per open block: results of the most recent loop with carried values
        self.defs = [None]  # per open block: a value computed by a "def" statement in that block

    def fresh(self, p="v"):
        self.n += 1
        return f"%{p}{self.n}"

    def emit(self, s, ind):
        self.lines.append("  " * ind + s)

    def value(self, v, ind):
        k = v[0]
        if k == "a":
            return f"%a{v[1]}"
        if k == "k":
            r = self.fresh("k")
            self.emit(f"{r} = arith.constant {v[1]} : i32", ind)
            return r
        if k == "prev+":
            r = self.fresh("p")
            self.emit(f"{r} = arith.addi {self.prev}, %a{v[1]} : i32", ind)
            return r
        if k == "d":
            for name in reversed(self.defs):
                if name is not None:
                    return name
            return "%a2"
        if k == "dsel":
            d = next((name for name in reversed(self.defs) if name is not None), "%a2")
            r, w = self.fresh("sel"), self.fresh("w")
            self.emit(f"{r} = scf.if %c{v[1]}b -> (i32) {{", ind)
            self.emit(f"{w} = arith.muli {d}, {d} : i32", ind + 1)
            self.emit(f"scf.yield {w} : i32", ind + 1)
            self.emit("} else {", ind)
            self.emit("scf.yield %a1 : i32", ind + 1)
            self.emit("}", ind)
            return r
        if k == "res":
            rs = self.results[-1] if self.results else []
            return rs[v[1]] if v[1] < len(rs) else f"%a{v[1] + 1}"
        if k in ("lc", "lck"):
            carried = [a for a in self.accs if a is not None]
            base = carried[-1] if carried else "%a2"
            if k == "lc":
                return base
            c = self.fresh("k")
            self.emit(f"{c} = arith.constant {v[1]} : i32", ind)
            r = self.fresh("m")
            self.emit(f"{r} = arith.muli {base}, {c} : i32", ind)
            return r
        if k in ("oiv", "oivk"):
            # the counter of the loop AROUND the innermost one (falls back to the innermost / an argument)
            iv = self.ivs[-2] if len(self.ivs) > 1 else (self.ivs[-1] if self.ivs else None)
            k = "iv" if k == "oiv" else "ivk"
        else:
            iv = self.ivs[-1] if self.ivs else None
        if iv is None:
            # outside loops iv-based values degrade to an argument-based computation (still a pure chain)
            base = "%a3"
        else:
            base = self.fresh("ivc")
            self.emit(f"{base} = arith.index_cast {iv} : index to i32", ind)
        if k == "iv":
            return base
        if k == "iva":
            r = self.fresh("s")
            self.emit(f"{r} = arith.addi {base}, %a{v[1]} : i32", ind)
            return r
        if k == "ivk":
            c = self.fresh("k")
            self.emit(f"{c} = arith.constant {v[1]} : i32", ind)
            r = self.fresh("m")
            self.emit(f"{r} = arith.muli {base}, {c} : i32", ind)
            return r
        raise ValueError(v)

    def _touched(self, body):
        """accelerators whose registers a block may change (None = all, because of a call)"""
        out = set()
        for b in body or ():
            if b[0] in ("cfg", "cfgk"):
                out.add(b[1])
            elif b[0] in ("call", "lcall", "fullop"):
                return None
            elif b[0] in ("for", "forc", "forc2", "while"):
                t = self._touched(b[2])
                if t is None:
                    return None
                out |= t
            elif b[0] == "if":
                for blk in (b[2], b[3]):
                    t = self._touched(blk)
                    if t is None:
                        return None
                    out |= t
        return out

    def _forget(self, touched):
        if touched is None:
            self.last_state = {}
        else:
            for a in touched:
                self.last_state.pop(a, None)

    def stmt(self, s, ind):
        k = s[0]
        if k in ("for", "forc", "forc2", "while"):
            self._forget(self._touched(s[2]))  # at the loop head on iteration >= 2
            saved = dict(self.last_state)
            self._stmt(s, ind)
            self.last_state = saved
            self._forget(self._touched(s[2]))
            return
        if k == "if":
            saved = dict(self.last_state)
            self._stmt(s, ind)
            self.last_state = saved
            self._forget(self._touched(s[2]))
            self._forget(self._touched(s[3]))
            return
        if k in ("call", "lcall", "fullop"):
            self.last_state = {}
        self._stmt(s, ind)

    def _stmt(self, s, ind):
        k = s[0]
        if k == "cfg":
            _, acc, pidx = s
            vals = []
            for v in PALETTE[acc][pidx]:
                self.prev = self.value(v, ind)
                vals.append(self.prev)
            d = ACCS[acc]
            st = self.fresh("st")
            params = ", ".join(f'"{f}" = {v} : i32' for f, v in zip(d["fields"], vals))
            self.emit(f'{st} = accfg.setup "{acc}" to ({params}) : !accfg.state<"{acc}">', ind)
            self.last_state[acc] = st
            tk = self.fresh("tk")
            lv = ["%l"] if len(d["launch"]) == 1 else ["%a3", "%a2"]
            lt = ["i5"] if len(d["launch"]) == 1 else ["i32", "i32"]
            ln = ", ".join(f'"{x}"' for x in d["launch"])
            self.emit(f'{tk} = "accfg.launch"({", ".join(lv)}, {st}) <{{param_names = [{ln}], accelerator = "{acc}"}}> : ({", ".join(lt)}, !accfg.state<"{acc}">) -> !accfg.token<"{acc}">', ind)
            self.emit(f'"accfg.await"({tk}) : (!accfg.token<"{acc}">) -> ()', ind)
        elif k == "cfgk":
            # two jobs; a constant the SECOND configuration is computed from sits between the first launch and its await
            _, acc, pidx, cst = s
            d = ACCS[acc]
            vals = [self.value(v, ind) for v in PALETTE[acc][pidx]]
            st = self.fresh("st")
            params = ", ".join(f'"{f}" = {v} : i32' for f, v in zip(d["fields"], vals))
            self.emit(f'{st} = accfg.setup "{acc}" to ({params}) : !accfg.state<"{acc}">', ind)
            tk = self.fresh("tk")
            self.emit(f'{tk} = "accfg.launch"(%l, {st}) <{{param_names = ["launch"], accelerator = "{acc}"}}> : (i5, !accfg.state<"{acc}">) -> !accfg.token<"{acc}">', ind)
            kk, xx = self.fresh("k"), self.fresh("x")
            self.emit(f"{kk} = arith.constant {cst} : i32", ind)
            self.emit(f'"accfg.await"({tk}) : (!accfg.token<"{acc}">) -> ()', ind)
            self.emit(f"{xx} = arith.addi {kk}, %a1 : i32", ind)
            st2, tk2 = self.fresh("st"), self.fresh("tk")
            self.emit(f'{st2} = accfg.setup "{acc}" to ("A" = {xx} : i32, "B" = %a1 : i32) : !accfg.state<"{acc}">', ind)
            self.last_state[acc] = st2
            self.prev = xx
            self.emit(f'{tk2} = "accfg.launch"(%l, {st2}) <{{param_names = ["launch"], accelerator = "{acc}"}}> : (i5, !accfg.state<"{acc}">) -> !accfg.token<"{acc}">', ind)
            self.emit(f'"accfg.await"({tk2}) : (!accfg.token<"{acc}">) -> ()', ind)
        elif k == "rl":
            # launch again with the configuration in effect (no setup of its own): only where a dominating setup of this
            # accelerator is certainly still in effect (nothing that may change the registers since, on any path)
            acc = s[1]
            st = self.last_state.get(acc)
            if st is None:
                return
            d = ACCS[acc]
            tk = self.fresh("tk")
            lv = ["%l"] if len(d["launch"]) == 1 else ["%a3", "%a2"]
            lt = ["i5"] if len(d["launch"]) == 1 else ["i32", "i32"]
            ln = ", ".join(f'"{x}"' for x in d["launch"])
            self.emit(f'{tk} = "accfg.launch"({", ".join(lv)}, {st}) <{{param_names = [{ln}], accelerator = "{acc}"}}> : ({", ".join(lt)}, !accfg.state<"{acc}">) -> !accfg.token<"{acc}">', ind)
            self.emit(f'"accfg.await"({tk}) : (!accfg.token<"{acc}">) -> ()', ind)
        elif k == "for":
            _, bounds, body = s
            iv = self.fresh("i")
            lb, ub, stp = BOUNDS[bounds]
            self.emit(f"scf.for {iv} = {lb} to {ub} step {stp} {{", ind)
            self.ivs.append(iv)
            self.accs.append(None)
            self.results.append([]); self.defs.append(None)
            for b in body:
                self.stmt(b, ind + 1)
            self.results.pop(); self.defs.pop()
            self.accs.pop()
            self.ivs.pop()
            self.emit("}", ind)
        elif k == "while":
            # a counting loop written as scf.while (a region op the state tracing has no special case for)
            _, bounds, body = s
            lb, ub, stp = BOUNDS[bounds]
            r, k0, c, iv, nx = self.fresh("wr"), self.fresh("wk"), self.fresh("wc"), self.fresh("i"), self.fresh("wn")
            self.emit(f"{r} = scf.while ({k0} = {lb}) : (index) -> index {{", ind)
            self.emit(f"{c} = arith.cmpi slt, {k0}, {ub} : index", ind + 1)
            self.emit(f"scf.condition({c}) {k0} : index", ind + 1)
            self.emit("} do {", ind)
            self.emit(f"^bb0({iv} : index):", ind)
            self.ivs.append(iv)
            self.accs.append(None)
            self.results.append([]); self.defs.append(None)
            for b in body:
                self.stmt(b, ind + 1)
            self.results.pop(); self.defs.pop()
            self.accs.pop()
            self.ivs.pop()
            self.emit(f"{nx} = arith.addi {iv}, {stp} : index", ind + 1)
            self.emit(f"scf.yield {nx} : index", ind + 1)
            self.emit("}", ind)
        elif k == "forc":
            _, bounds, body = s
            iv, acc, res = self.fresh("i"), self.fresh("acc"), self.fresh("r")
            lb, ub, stp = BOUNDS[bounds]
            self.emit(f"{res} = scf.for {iv} = {lb} to {ub} step {stp} iter_args({acc} = %a0) -> (i32) {{", ind)
            self.ivs.append(iv)
            self.accs.append(acc)
            self.results.append([]); self.defs.append(None)
            for b in body:
                self.stmt(b, ind + 1)
            self.results.pop(); self.defs.pop()
            c = self.fresh("ivc")
            self.emit(f"{c} = arith.index_cast {iv} : index to i32", ind + 1)
            n = self.fresh("n")
            self.emit(f"{n} = arith.addi {acc}, {c} : i32", ind + 1)
            one = self.fresh("k")
            self.emit(f"{one} = arith.constant 1 : i32", ind + 1)
            n2 = self.fresh("n")
            self.emit(f"{n2} = arith.addi {n}, {one} : i32", ind + 1)
            self.emit(f"scf.yield {n2} : i32", ind + 1)
            self.accs.pop()
            self.ivs.pop()
            self.emit("}", ind)
            self.results[-1] = [res]
        elif k == "forc2":
            # two loop-carried values with different updates; both results are visible behind the loop
            _, bounds, body = s
            iv, x, y, r1, r2 = self.fresh("i"), self.fresh("acc"), self.fresh("acd"), self.fresh("r"), self.fresh("q")
            lb, ub, stp = BOUNDS[bounds]
            self.emit(f"{r1}, {r2} = scf.for {iv} = {lb} to {ub} step {stp} iter_args({x} = %a0, {y} = %a1) -> (i32, i32) {{", ind)
            self.ivs.append(iv)
            self.accs.append(x)
            self.results.append([]); self.defs.append(None)
            for b in body:
                self.stmt(b, ind + 1)
            self.results.pop(); self.defs.pop()
            c = self.fresh("ivc")
            self.emit(f"{c} = arith.index_cast {iv} : index to i32", ind + 1)
            n1 = self.fresh("n")
            self.emit(f"{n1} = arith.addi {x}, {c} : i32", ind + 1)
            n2 = self.fresh("n")
            self.emit(f"{n2} = arith.addi {y}, %a2 : i32", ind + 1)
            self.emit(f"scf.yield {n1}, {n2} : i32, i32", ind + 1)
            self.accs.pop()
            self.ivs.pop()
            self.emit("}", ind)
            self.results[-1] = [r1, r2]
        elif k == "if":
            _, j, tb, eb = s
            before_if = dict(self.last_state)
            self.emit(f"scf.if %c{j}b {{", ind)
            self.results.append([]); self.defs.append(None)
            for b in tb:
                self.stmt(b, ind + 1)
            if eb is not None:
                self.emit("} else {", ind)
                self.last_state = dict(before_if)
                self.results[-1] = []
                for b in eb:
                    self.stmt(b, ind + 1)
            self.results.pop(); self.defs.pop()
            self.emit("}", ind)
        elif k == "call":
            self.emit("func.call @ext() : () -> ()", ind)
        elif k == "lcall":
            self.emit('"llvm.call"() <{callee = @lext, fastmathFlags = #llvm.fastmath<none>, CConv = #llvm.cconv<ccc>, '
                      'op_bundle_sizes = array<i32>, operandSegmentSizes = array<i32: 0, 0>, '
                      'TailCallKind = #llvm.tailcallkind<none>}> : () -> ()', ind)
        elif k == "fullop":
            # an op that is no call but is marked as reprogramming the accelerators (inline assembly, a runtime helper)
            self.emit('"test.op"() {accfg.effects = #accfg.effects<full>} : () -> ()', ind)
        elif k == "callnone":
            self.emit("func.call @ext() {accfg.effects = #accfg.effects<none>} : () -> ()", ind)
        elif k == "def":
            # a value computed at this point of the block (used by later configurations, also inside nested regions)
            r = self.fresh("d")
            self.emit(f"{r} = arith.addi %a{s[1] % 4}, %a{(s[1] + 1) % 4} : i32", ind)
            self.defs[-1] = r
        elif k == "use":
            v = self.value(s[1], ind)
            self.emit(f'"test.op"({v}) : (i32) -> ()', ind)
        else:
            raise ValueError(s)


def render(prog, decls=True):
    R = Render()
    for s in prog:
        if s[0] == "cbr":
            # unstructured control flow at function level: the entry block branches to one of two blocks, both continue
            # in a join block (only as the last statement of a program: the join block holds what follows)
            _, j, tb, eb, tail = s
            before = dict(R.last_state)
            R.emit(f"cf.cond_br %c{j}b, ^bbt, ^bbe", 2)
            for lbl, blk in (("^bbt", tb), ("^bbe", eb)):
                R.lines.append(f"  {lbl}:")
                R.last_state = dict(before)
                for b in blk:
                    R.stmt(b, 2)
                R.emit("cf.br ^bbj", 2)
            R.lines.append("  ^bbj:")
            R.last_state = {}
            for b in tail:
                R.stmt(b, 2)
            break
        R.stmt(s, 2)
    body = "\n".join(R.lines)
    return f"""builtin.module {{
{accel_decls() if decls else ""}
  func.func private @ext() -> ()
  "llvm.func"() <{{sym_name = "lext", function_type = !llvm.func<void ()>, CConv = #llvm.cconv<ccc>, linkage = #llvm.linkage<"external">, visibility_ = 0 : i64}}> ({{
  }}) : () -> ()
  func.func @f(%a0 : i32, %a1 : i32, %a2 : i32, %a3 : i32, %c0b : i1, %c1b : i1, %lb : index, %ub : index, %st : index) {{
    %l = arith.constant 1 : i5
    %c0 = arith.constant 0 : index
    %c1 = arith.constant 1 : index
    %c2 = arith.constant 2 : index
    %c3 = arith.constant 3 : index
    %c4 = arith.constant 4 : index
    %c5 = arith.constant 5 : index
{body}
    func.return
  }}
}}
"""


# ------------------------------------------------------------------ enumeration


def atoms(accs, in_loop, pal_limit, relaunch=False):
    out = []
    for acc in accs:
        for p in range(min(pal_limit, len(PALETTE[acc]))):
            uses_iv = any(v[0] in ("iv", "iva", "ivk", "lc", "lck") for v in PALETTE[acc][p])
            if uses_iv and not in_loop:
                continue
            out.append(("cfg", acc, p))
    out += [("call",), ("callnone",), ("lcall",)]
    if relaunch:
        out += [("rl", acc) for acc in accs]
    return out


def gen_blocks(size, depth, accs, in_loop, pal_limit, bounds_kinds):
    """all blocks (tuples of stmts) with exactly `size` statements (nested ones count)"""
    if size == 0:
        yield ()
        return
    for first_size in range(1, size + 1):
        for first in gen_stmts(first_size, depth, accs, in_loop, pal_limit, bounds_kinds):
            for rest in gen_blocks(size - first_size, depth, accs, in_loop, pal_limit, bounds_kinds):
                yield (first,) + rest


def gen_stmts(size, depth, accs, in_loop, pal_limit, bounds_kinds):
    if size == 1:
        yield from atoms(accs, in_loop, pal_limit)
        return
    if depth <= 0:
        return
    inner = size - 1
    for bk in bounds_kinds:
        for body in gen_blocks(inner, depth - 1, accs, True, pal_limit, bounds_kinds):
            yield ("for", bk, body)
    for body in gen_blocks(inner, depth - 1, accs, in_loop, pal_limit, bounds_kinds):
        yield ("if", 0, body, None)
    for ts in range(1, inner):
        for tb in gen_blocks(ts, depth - 1, accs, in_loop, pal_limit, bounds_kinds):
            for eb in gen_blocks(inner - ts, depth - 1, accs, in_loop, pal_limit, bounds_kinds):
                yield ("if", 0, tb, eb)


def has_cfg(prog):
    for s in prog:
        if s[0] in ("cfg", "cfgk"):
            return True
        if s[0] in ("for", "forc", "forc2", "while") and has_cfg(s[2]):
            return True
        if s[0] == "if" and (has_cfg(s[2]) or (s[3] is not None and has_cfg(s[3]))):
            return True
        if s[0] == "cbr" and (has_cfg(s[2]) or has_cfg(s[3]) or has_cfg(s[4])):
            return True
    return False


def count_cfg(prog):
    n = 0
    for s in prog:
        if s[0] in ("cfg", "cfgk"):
            n += 1
        elif s[0] in ("for", "forc", "forc2", "while"):
            n += count_cfg(s[2])
        elif s[0] == "if":
            n += count_cfg(s[2]) + (count_cfg(s[3]) if s[3] is not None else 0)
        elif s[0] == "cbr":
            n += count_cfg(s[2]) + count_cfg(s[3]) + count_cfg(s[4])
    return n


def random_prog(rnd, size, depth, accs, pal_limit, bounds_kinds, in_loop=False):
    out = []
    left = size
    while left > 0:
        r = rnd.random()
        if left >= 2 and depth > 0 and r < 0.45:
            inner = rnd.randint(1, left - 1)
            kind = rnd.choice(["for", "for", "forc", "forc2", "if", "ifelse"])
            if kind in ("for", "forc", "forc2"):
                out.append((kind, rnd.choice(bounds_kinds), random_prog(rnd, inner, depth - 1, accs, pal_limit, bounds_kinds, True)))
            elif kind == "if" or inner < 2:
                out.append(("if", rnd.randint(0, 1), random_prog(rnd, inner, depth - 1, accs, pal_limit, bounds_kinds, in_loop), None))
            else:
                ts = rnd.randint(1, inner - 1)
                out.append(("if", rnd.randint(0, 1), random_prog(rnd, ts, depth - 1, accs, pal_limit, bounds_kinds, in_loop),
                            random_prog(rnd, inner - ts, depth - 1, accs, pal_limit, bounds_kinds, in_loop)))
            left -= inner + 1
        else:
            if rnd.random() < 0.06:
                out.append(("def", rnd.randrange(4)))
                left -= 1
                continue
            at = atoms(accs, in_loop, pal_limit, relaunch=True)
            cfgs = [a for a in at if a[0] == "cfg"]
            out.append(rnd.choice(cfgs) if rnd.random() < 0.7 else rnd.choice(at))
            left -= 1
    return tuple(out)


def program_set(tier, seed, want_calls=True):
    """deterministic program list: exhaustive up to a size cut, then seeded samples."""
    rnd = random.Random(seed)
    progs = []
    seen = set()

    def add(p):
        if p not in seen and has_cfg(p):
            seen.add(p)
            progs.append(p)

    quick = tier == "quick"
    # exhaustive: one accelerator, palette 4, sizes <= 3 (quick) / <= 4 (thorough), depth <= 2
    for size in range(1, 4 if quick else 5):
        for p in gen_blocks(size, 2, ["acc1"], False, 3 if size >= 3 else 4, ["args"] if size >= 4 else ["args", "k42"]):
            if not want_calls and any(s[0] in ("call", "callnone", "lcall") for s in p):
                continue
            if size >= 3 and count_cfg(p) < 2:
                continue
            add(p)
    # a launch that re-uses the configuration in effect (no setup of its own), nested in a conditional or loop between
    # two configurations: exhaustive over the palette
    for p1 in range(4):
        for p2 in range(4):
            rl = (("rl", "acc1"),)
            add((("cfg", "acc1", p1), ("if", 0, rl, None), ("cfg", "acc1", p2)))
            add((("cfg", "acc1", p1), ("if", 0, rl, (("cfg", "acc1", p2),)), ("cfg", "acc1", p2)))
            add((("cfg", "acc1", p1), ("for", "args", rl), ("cfg", "acc1", p2)))
            add((("for", "args", (("cfg", "acc1", p1), ("if", 1, rl, None), ("cfg", "acc1", p2))),))
            add((("cfg", "acc1", p1), ("rl", "acc1"), ("cfg", "acc1", p2), ("rl", "acc1")))
    # loops with constant ranges (empty, one trip, two trips with a partial last step, more) around two configurations,
    # with and without the first one already in effect before the loop
    for bk in CONST_BOUNDS:
        for p1 in range(3):
            for p2 in range(3):
                if p1 != p2:
                    body = (("cfg", "acc1", p1), ("cfg", "acc1", p2))
                    add((("cfg", "acc1", p1), ("for", bk, body)))
                    add((("for", bk, body), ("cfg", "acc1", p1)))
    # a conditional that configures the accelerator, followed by two (or three) configurations in the same block
    for p1 in range(3):
        for p2 in range(3):
            for p3 in range(3):
                add((("if", 0, (("cfg", "acc1", p1),), None), ("cfg", "acc1", p2), ("cfg", "acc1", p3)))
                add((("if", 1, (("cfg", "acc1", p1),), (("cfg", "acc1", p3),)), ("cfg", "acc1", p2), ("cfg", "acc1", p3)))
    # two conditionals in sequence with a value computed between them that one branch of the second one uses
    for p1 in range(3):
        for pa in range(3):
            for pd in (11, 12):
                for c2 in (0, 1):
                    add((("if", 0, (("cfg", "acc1", p1),), None), ("def", 1), ("if", c2, (("cfg", "acc1", pa),), (("cfg", "acc1", pd),))))
                    add((("cfg", "acc1", p1), ("if", 0, (("cfg", "acc1", pa),), None), ("def", 2), ("if", c2, (("cfg", "acc1", pd),), (("cfg", "acc1", pa),))))
    # a loop carrying two values next to the accelerator state; both results feed a configuration behind the loop
    for bk in ("args", "k05s2", "k42"):
        for p1 in range(2):
            for pr in (9, 10):
                add((("cfg", "acc1", p1), ("forc2", bk, (("cfg", "acc1", 3),)), ("cfg", "acc1", pr)))
                add((("forc2", bk, (("cfg", "acc1", p1), ("cfg", "acc1", 7))), ("cfg", "acc1", pr), ("cfg", "acc1", p1)))
    # two accelerators configured, then a call inside a conditional / loop followed by a new setup of only ONE of them,
    # then the other one is configured again behind it
    if want_calls:
        for p1 in range(2):
            for p2 in range(2):
                for call in (("call",), ("lcall",)):
                    inner = (call, ("cfg", "acc1", p2))
                    pre = (("cfg", "acc1", p1), ("cfg", "acc2", p1))
                    post = (("cfg", "acc2", p2),)
                    add(pre + (("if", 0, inner, None),) + post)
                    add(pre + (("if", 1, (("cfg", "acc1", p2),), inner),) + post)
                    add(pre + (("for", "args", inner),) + post)
                    add(pre + (("if", 0, inner, None), ("rl", "acc2")) + post)
    # a loop that does not configure the accelerator itself but may reach a call somewhere below: behind an annotated
    # (effect-free) call, in the else branch of a conditional, one loop further down; configured alike before and
    # after the loop, or relaunched after it
    if want_calls:
        for call in (("call",), ("lcall",)):
            for c in (0, 1):
                b1 = (("if", c, (("callnone",),), (call,)),)
                b2 = (("callnone",), call)
                b3 = (("for", "args", b1),)
                b4 = (("if", c, (("callnone",),), None), call)
                b5 = (("for", "k13", b2),)
                b6 = (("if", c, (("callnone",),), (("callnone",), call)),)
                for body in (b1, b2, b3, b4, b5, b6):
                    for bk in ("args", "k13"):
                        for p1 in range(2):
                            add((("cfg", "acc1", p1), ("for", bk, body), ("cfg", "acc1", p1)))
                            add((("cfg", "acc1", p1), ("for", bk, body), ("rl", "acc1")))
                            add((("cfg", "acc1", p1), ("if", c, body, None), ("cfg", "acc1", p1)))
    # a loop whose body configures in one branch, in a conditional nested in the other branch, and twice behind it:
    # what is known at the second-to-last setup depends on which paths reach it, also around the back edge
    for pt in range(3):
        for pv in range(3):
            for pw in range(3):
                for pz in range(3):
                    if pz == pw or (quick and (pt + pv + pw + pz) % 2):
                        continue
                    body = (("if", 0, (("cfg", "acc1", pt),), (("if", 1, (("cfg", "acc1", pv),), None),)), ("cfg", "acc1", pw), ("cfg", "acc1", pz))
                    add((("cfg", "acc1", pt), ("for", "args", body)))
                    if not quick:
                        add((("cfg", "acc1", pw), ("for", "c01", body)))
    # a function body of several blocks: configurations in the two successor blocks, one behind the join
    for pt in range(3):
        for pe in range(3):
            for pj in range(3):
                if pt != pe:
                    add((("cfg", "acc1", pj), ("cbr", 0, (("cfg", "acc1", pt),), (("cfg", "acc1", pe),), (("cfg", "acc1", pj),))))
                    add((("cbr", 1, (("cfg", "acc1", pt),), (("cfg", "acc1", pe),), (("cfg", "acc1", pt), ("cfg", "acc1", pj))),))
    # a value of the next configuration computed between a launch and its await
    for p_ in range(3):
        add((("cfgk", "acc1", p_, 5),))
        add((("cfg", "acc1", p_), ("cfgk", "acc1", (p_ + 1) % 3, 7)))
        add((("for", "args", (("cfgk", "acc1", p_, 5),)),))
        add((("cfg", "acc1", 0), ("for", "k13", (("cfgk", "acc1", 3, 9), ("cfg", "acc1", p_)))))
        add((("if", 0, (("cfgk", "acc1", p_, 5),), None), ("cfg", "acc1", 1)))
    # an op that is no call but carries the mark "reprograms the accelerators", wherever a call can stand
    if want_calls:
        for p0 in range(2):
            for p2 in range(2):
                add((("cfg", "acc1", p0), ("fullop",), ("cfg", "acc1", p2)))
                add((("cfg", "acc1", p0), ("for", "args", (("fullop",),)), ("cfg", "acc1", p2)))
                add((("cfg", "acc1", p0), ("if", 0, (("fullop",),), None), ("cfg", "acc1", p2)))
                add((("cfg", "acc1", p0), ("for", "k13", (("fullop",), ("cfg", "acc1", p0))), ("cfg", "acc1", p2)))
    # two accelerators configured in both branches of one conditional; behind it the second one runs the job both
    # branches ended in and then another one
    for pa in range(2):
        for q in range(3):
            for q2 in range(3):
                if q != q2:
                    br = lambda pa_: (("cfg", "acc1", pa_), ("cfg", "acc2", q))
                    add((("if", 0, br(pa), br(1 - pa)), ("cfg", "acc2", q), ("cfg", "acc2", q2)))
                    add((("cfg", "acc2", q2), ("if", 1, br(pa), br(pa)), ("cfg", "acc2", q), ("cfg", "acc2", q2), ("cfg", "acc1", pa)))
                    add((("cfg", "acc1", pa), ("cfg", "acc2", q2), ("if", 0, br(1 - pa), br(pa)), ("cfg", "acc2", q), ("cfg", "acc2", q2)))
                    add((("cfg", "acc2", q2), ("cfg", "acc1", pa), ("if", 0, (("cfg", "acc2", q), ("cfg", "acc1", 1 - pa)), (("cfg", "acc2", q), ("cfg", "acc1", pa))), ("cfg", "acc2", q), ("cfg", "acc2", q2)))
    # (the same with the roles swapped: acc1's values are plain arguments, so its repeated job is elided completely)
    for qa in range(2):
        for p_ in range(3):
            for p2_ in range(3):
                if p_ != p2_:
                    br = lambda qa_: (("cfg", "acc2", qa_), ("cfg", "acc1", p_))
                    add((("cfg", "acc2", qa), ("cfg", "acc1", p2_), ("if", 0, br(1 - qa), br(qa)), ("cfg", "acc1", p_), ("cfg", "acc1", p2_)))
                    add((("cfg", "acc2", qa), ("cfg", "acc1", p2_), ("for", "args", (("if", 1, br(qa), br(1 - qa)), ("cfg", "acc1", p_), ("cfg", "acc1", p2_)))))
    # region ops the state tracing has no special case for (scf.while): what happens inside has to be forgotten behind it
    for bk in ("args", "k13", "k42"):
        for p0 in range(3):
            for p1 in range(3):
                add((("cfg", "acc1", p0), ("while", bk, (("cfg", "acc1", p1),)), ("cfg", "acc1", p0)))
                add((("cfg", "acc1", p0), ("while", bk, (("cfg", "acc1", p1),)), ("rl", "acc1")))
                if want_calls and p1 == 0:
                    add((("cfg", "acc1", p0), ("while", bk, (("call",),)), ("cfg", "acc1", p0)))
                    add((("cfg", "acc1", p0), ("while", bk, (("if", 0, (("call",),), None),)), ("cfg", "acc1", p0)))
                    add((("for", "args", (("cfg", "acc1", p0), ("while", bk, (("call",),)))),))
    # a conditional in which one branch ends with the accelerator clobbered by a call and the other one configures it,
    # between two configurations (all combinations of a 3-value palette)
    if want_calls:
        for p0 in range(3):
            for p1 in range(3):
                for p2 in range(3):
                    for call in (("call",),) if quick else (("call",), ("lcall",)):
                        for c in (0,) if quick else (0, 1):
                            add((("cfg", "acc1", p0), ("if", c, (call,), (("cfg", "acc1", p1),)), ("cfg", "acc1", p2)))
                            add((("cfg", "acc1", p0), ("if", c, (("cfg", "acc1", p1),), (call,)), ("cfg", "acc1", p2)))
                            if p2 == p0:
                                add((("cfg", "acc1", p0), ("if", c, (("cfg", "acc1", p1), call), (("cfg", "acc1", p1),)), ("cfg", "acc1", p2)))
    # a loop body that launches one configuration twice (a relaunch) before it configures again
    for bk in ("args", "k13"):
        for p1 in (3, 0, 5):
            for p2 in (0, 1, 2, 4):
                if p1 != p2:
                    add((("for", bk, (("cfg", "acc1", p1), ("rl", "acc1"), ("cfg", "acc1", p2))),))
                    add((("cfg", "acc1", p2), ("for", bk, (("cfg", "acc1", p1), ("rl", "acc1"), ("rl", "acc1"), ("cfg", "acc1", p2)))))
    # two nested loops that both start with a configuration: the inner one computed from what the outer loop provides
    # (its counter, its carried value, a value of the outer configuration's input chain)
    for outer in ("for", "forc"):
        for bk in ("args", "k13"):
            for po in (0, 3, 7):
                for pi in (13, 14, 6, 7, 8, 3):
                    inner = ("for", "args" if bk == "k13" else "c01", (("cfg", "acc1", pi),))
                    add(((outer, bk, (("cfg", "acc1", po), inner)),))
                    if not quick:
                        add((("cfg", "acc1", 0), (outer, bk, (("cfg", "acc1", po), inner, ("cfg", "acc1", 1)))))
    n_exh = len(progs)
    # sampled: two accelerators, bigger, deeper
    target = 500 if quick else 4000
    tries = 0
    while len(progs) < n_exh + target and tries < target * 20:
        tries += 1
        size = rnd.randint(3, 6 if quick else 8)
        accs = ["acc1"] if rnd.random() < 0.6 else ["acc1", "acc2"]
        p = random_prog(rnd, size, 2 if quick else 3, accs, 9, ALL_BOUNDS)
        if count_cfg(p) >= 2:
            add(p)
    return progs, n_exh


# ------------------------------------------------------------------ abstract CSR machine


def collect_fields(module):
    """acc -> {field: type} over all setups in the module; acc -> launch params"""
    from snaxc.dialects import accfg

    fields = {}
    for op in module.walk():
        if isinstance(op, accfg.SetupOp):
            d = fields.setdefault(op.accelerator.data, {})
            for n, v in op.iter_params():
                d.setdefault(n, v.type)
    return fields


class Machine:
    """register file shared by construction between two program runs through `shared` (init and clobber unknowns
    are keyed by name / call order)."""

    def __init__(self, I: Interp, fields):
        self.I = I
        self.fields = fields
        self.regs = {acc: {} for acc in fields}
        self.written = {acc: set() for acc in fields}
        self.recent = {acc: set() for acc in fields}  # fields written since the previous launch of that accelerator
        self.recent_loops = {}  # accelerator -> field -> loops around the setup that wrote it last
        self.on_state = None  # callback(value, op, where)

    def reg(self, acc, f):
        r = self.regs.setdefault(acc, {})
        if f not in r:
            t = self.fields[acc][f]
            r[f] = self.I.shared.setdefault(("init", acc, f), z3.Const(f"init_{acc}_{f}", self.I.sort_of(t)))
        return r[f]

    def snapshot(self, acc):
        return tuple(self.reg(acc, f) for f in sorted(self.fields.get(acc, {})))

    def clobber(self):
        for acc, fs in self.fields.items():
            for f, t in fs.items():
                self.regs[acc][f] = self.I.fresh_for(("clobber", acc, f), t)


def machine_handlers(M: Machine):
    def may_reconfigure(op):
        """machine semantics (independent of the compiler's own predicate): a func.call / llvm.call may reconfigure
        every accelerator unless it carries accfg.effects = none"""
        from snaxc.dialects import accfg

        a = op.attributes.get("accfg.effects")
        if isinstance(a, accfg.EffectsAttr):
            return a.data != accfg.EffectsEnum.NONE
        return True

    def h_setup(I, op):
        acc = op.accelerator.data
        if op.in_state is not None:
            I.get(op.in_state)
            if M.on_state:  # the state the setup is linked to must hold when the setup executes
                M.on_state(op.in_state, op, "setup_in_state")
        for n, v in op.iter_params():
            M.regs.setdefault(acc, {})[n] = I.get(v)
            M.written.setdefault(acc, set()).add(n)
            M.recent.setdefault(acc, set()).add(n)
            M.recent_loops.setdefault(acc, {})[n] = _loops_around(op)
        I.set(op.out_state, Opaque("state", acc=acc))
        if M.on_state:
            M.on_state(op.out_state, op, "setup")

    def h_launch(I, op):
        acc = op.accelerator.data
        I.get(op.state)
        if M.on_state:
            M.on_state(op.state, op, "launch_state")
        vals = tuple(I.get(v) for v in op.values)
        from xdsl.dialects import scf as _scf

        p, in_loop = op.parent_op(), False
        while p is not None:
            if isinstance(p, _scf.ForOp):
                in_loop = True
            p = p.parent_op()
        here = _loops_around(op)
        # fields whose latest write sits inside a loop this launch is not in: the value reaches the launch over a loop exit
        over_exit = tuple(sorted(f for f in M.recent.get(acc, ()) if not M.recent_loops.get(acc, {}).get(f, frozenset()) <= here))
        I.emit("launch", acc, M.snapshot(acc), vals, tuple(sorted(M.written.get(acc, ()))),
               "launch_in_loop" if in_loop else "launch_outside_loop", tuple(sorted(M.recent.get(acc, ()))), over_exit)
        M.recent[acc] = set()
        I.set(op.token, Opaque("token", acc=acc))

    def h_await(I, op):
        t = I.get(op.token)
        I.emit("await", t.acc)

    def h_call(I, op):
        name = op.callee.root_reference.data
        if may_reconfigure(op):
            M.clobber()
            I.emit("call", name, True)
        else:
            I.emit("call", name, False)
        for i, r in enumerate(op.results):
            I.set(r, I.fresh_for(("call", name, i), r.type))

    def h_accel(I, op):
        return None

    def h_br(I, op):
        blk = op.successor
        for a, v in zip(blk.args, [I.get(o) for o in op.operands]):
            I.set(a, v)
        return I.run_block(blk)

    def h_cond_br(I, op):
        c = I.get(op.cond)
        taken = eng().branch(irsym.bv2b(c) if not I.intmode else c != 0)
        blk = op.then_block if taken else op.else_block
        for a, v in zip(blk.args, [I.get(o) for o in (op.then_arguments if taken else op.else_arguments)]):
            I.set(a, v)
        return I.run_block(blk)

    def h_marked(I, op):
        # an arbitrary op: reprograms the accelerators iff it is marked so
        from snaxc.dialects import accfg

        a = op.attributes.get("accfg.effects")
        if isinstance(a, accfg.EffectsAttr) and a.data != accfg.EffectsEnum.NONE:
            M.clobber()
            I.emit("call", "marked_op", True)

    def h_for_iter(I, op, k):
        if M.on_state:
            for a in op.body.blocks[0].args[1:]:
                if _is_state(a):
                    M.on_state(a, op, f"for_blockarg_iter{k}")

    def h_for_exit(I, op, k):
        if M.on_state:
            for r in op.results:
                if _is_state(r):
                    M.on_state(r, op, f"for_result_trips{k}")

    def h_if_exit(I, op):
        if M.on_state:
            for r in op.results:
                if _is_state(r):
                    M.on_state(r, op, "if_result")

    return {
        "accfg.setup": h_setup, "accfg.launch": h_launch, "accfg.await": h_await, "func.call": h_call,
        "llvm.call": h_call, "test.op": h_marked, "cf.br": h_br, "cf.cond_br": h_cond_br,
        "accfg.accelerator": h_accel, "@for_iter": h_for_iter, "@for_exit": h_for_exit, "@if_exit": h_if_exit,
    }


def _loops_around(op):
    from xdsl.dialects import scf as _scf

    out = set()
    p = op.parent_op()
    while p is not None:
        if isinstance(p, _scf.ForOp):
            out.add(id(p))
        p = p.parent_op()
    return frozenset(out)


def _is_state(v):
    from snaxc.dialects import accfg

    return isinstance(v.type, accfg.StateType)


def run_on_machine(module, args, shared, K, fields, W=32, on_state=None, extra_handlers=None):
    I = Interp(W=W, K=K, shared=shared)
    M = Machine(I, fields)
    M.on_state = on_state
    I.handlers.update(machine_handlers(M))
    if extra_handlers:
        I.handlers.update(extra_handlers)
    fn = [f for f in irsym.module_funcs(module) if f.sym_name.data == "f"][0]
    I.run_func(fn, args)
    return I, M


def std_args(W=32, model=None):
    """symbolic (or concrete, from a model) arguments of @f; also assumes loop sanity (step>0, no overflow)."""
    names = [("a0", 32), ("a1", 32), ("a2", 32), ("a3", 32), ("c0b", 1), ("c1b", 1), ("lb", W), ("ub", W), ("st", W)]
    if model is not None:
        return [z3.BitVecVal(int(model.get(n, 1 if n == "st" else 0)), w) for n, w in names]
    args = [z3.BitVec(n, w) for n, w in names]
    lb, ub, st = args[6], args[7], args[8]
    E = eng()
    E.assume(z3.And(st > 0, st < 1 << 12, lb >= 0, lb < 1 << 12, ub >= 0, ub < 1 << 12))
    return args


def launch_trace(events):
    return [e for e in events if e[0] in ("launch", "await", "call")]


def compare_launch_traces(t1, t2, fields, oblige):
    """t1 original, t2 transformed.  Same sequence of launch/await/call events; for every launch: every field the
    ORIGINAL had written before it holds the same value; launch values equal."""
    k1 = [(e[0], e[1]) for e in t1]
    k2 = [(e[0], e[1]) for e in t2]
    if k1 != k2:
        oblige("trace:sequence", False, dict(original=k1[:16], transformed=k2[:16]))
        return
    for i, (e1, e2) in enumerate(zip(t1, t2)):
        if e1[0] != "launch":
            continue
        acc = e1[1]
        names = sorted(fields.get(acc, {}))
        written = set(e1[4])
        for f, v1, v2 in zip(names, e1[2], e2[2]):
            if f in written:
                # does the input program write this field between the previous launch and this one, or does the
                # launch rely on a value left in the register earlier (e.g. because dedup removed the write)?
                rel = "written_by_own_setup" if f in e1[6] else "relies_on_earlier_state"
                if len(e1) > 7 and f in e1[7]:
                    rel = "relies_on_state_at_loop_exit"  # written, but inside a loop the launch is behind
                oblige("launch:register", irsym.term_eq(v1, v2), dict(launch=i, acc=acc, field=f, where=e1[5], reliance=rel))
        oblige("launch:values", irsym.term_eq(e1[3], e2[3]), dict(launch=i, acc=acc))
