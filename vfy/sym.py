"""Layer S: symbolic proxies that run the real Python, plus the path explorer.

``SymInt`` subclasses ``int`` (xdsl guards with isinstance) and carries a z3 Int
term.  ``SymBool.__bool__`` asks the engine to branch.  Paths are explored by
re-execution with a decision prefix.  Every obligation is discharged as
``unsat(pc and not phi)``.
"""

from __future__ import annotations

import time
import traceback

import z3

POISON = (1 << 80) + 12345


class Unsupported(BaseException):
    """Raised when the proxy cannot stay symbolic (C-level read etc.). BaseException
    so that real code's ``except Exception`` cannot swallow it."""


class PathAbort(BaseException):
    """Infeasible path / path budget."""


class HarnessError(Exception):
    pass


# --------------------------------------------------------------------------- engine


class Stats:
    def __init__(self):
        self.paths = 0
        self.queries = 0
        self.solver_s = 0.0
        self.unknown = 0
        self.unsupported = []  # (reason)
        self.obligations = 0
        self.discharged = 0
        self.inconclusive = 0
        self.unwinding_assumptions = 0
        self.concretisations = 0
        self.hash_calls = 0
        self.failed = []  # dicts: name, model, pc
        self.witness_paths = 0  # paths on which the reachability twin (False) is violated
        self.concrete_twins = 0  # paths re-run with real ints on their witness model

    def merge(self, o: "Stats"):
        for k in ("paths", "queries", "solver_s", "unknown", "obligations", "discharged", "inconclusive",
                  "unwinding_assumptions", "concretisations", "hash_calls", "witness_paths", "concrete_twins"):
            setattr(self, k, getattr(self, k) + getattr(o, k))
        self.unsupported += o.unsupported
        self.failed += o.failed

    def as_dict(self):
        d = {k: getattr(self, k) for k in ("paths", "queries", "unknown", "obligations", "discharged", "inconclusive",
                                             "unwinding_assumptions", "concretisations", "hash_calls", "witness_paths", "concrete_twins")}
        d["solver_s"] = round(self.solver_s, 3)
        d["unsupported"] = len(self.unsupported)
        d["unsupported_reasons"] = sorted(set(self.unsupported))[:10]
        d["failed"] = len(self.failed)
        return d


class Engine:
    def __init__(self, timeout_ms=5000):
        self.timeout_ms = timeout_ms
        self.solver = z3.Solver()
        self.solver.set("timeout", timeout_ms)
        self.prefix = []
        self.trace = []
        self.pc = []
        self.work = []
        self.stats = Stats()
        self.obl = []  # (name, z3 bool, info)
        self.fresh_n = 0
        self.notes = []
        self.shrink = []  # extra constraints tried when a counterexample is found, to get a small replayable model
        self.ivl = {}  # variable id -> [lo, hi] implied by assumptions of the form var <cmp> numeral (fast path)
        self.fast_decisions = 0

    @staticmethod
    def _atom(t):
        k = t.decl().kind()
        return z3.is_int(t) and ((z3.is_const(t) and k == z3.Z3_OP_UNINTERPRETED) or k in (z3.Z3_OP_BV2INT, getattr(z3, "Z3_OP_UBV2INT", -1)))

    # ---- interval fast path: decides comparisons of a plain variable with a numeral without a solver call.
    # Sound: the interval of a variable is implied by the path condition, a decision is only taken when implied.
    def _ivl_learn(self, c, positive=True):
        k = c.decl().kind()
        if positive and k == z3.Z3_OP_AND:
            for a in c.children():
                self._ivl_learn(a, True)
            return
        if k == z3.Z3_OP_NOT:
            self._ivl_learn(c.arg(0), not positive)
            return
        if k in (z3.Z3_OP_LE, z3.Z3_OP_GE, z3.Z3_OP_LT, z3.Z3_OP_GT, z3.Z3_OP_EQ) and c.num_args() == 2:
            a, b = c.arg(0), c.arg(1)
            if z3.is_int_value(a) and self._atom(b):
                a, b = b, a
                k = {z3.Z3_OP_LE: z3.Z3_OP_GE, z3.Z3_OP_GE: z3.Z3_OP_LE, z3.Z3_OP_LT: z3.Z3_OP_GT, z3.Z3_OP_GT: z3.Z3_OP_LT}.get(k, k)
            if not (self._atom(a) and z3.is_int_value(b)):
                return
            v = b.as_long()
            if not positive:
                if k == z3.Z3_OP_EQ:
                    return
                k = {z3.Z3_OP_LE: z3.Z3_OP_GT, z3.Z3_OP_GE: z3.Z3_OP_LT, z3.Z3_OP_LT: z3.Z3_OP_GE, z3.Z3_OP_GT: z3.Z3_OP_LE}[k]
            lo, hi = self.ivl.get(a.get_id(), (None, None))
            if k == z3.Z3_OP_LE:
                hi = v if hi is None else min(hi, v)
            elif k == z3.Z3_OP_LT:
                hi = v - 1 if hi is None else min(hi, v - 1)
            elif k == z3.Z3_OP_GE:
                lo = v if lo is None else max(lo, v)
            elif k == z3.Z3_OP_GT:
                lo = v + 1 if lo is None else max(lo, v + 1)
            elif k == z3.Z3_OP_EQ:
                lo = v if lo is None else max(lo, v)
                hi = v if hi is None else min(hi, v)
            self.ivl[a.get_id()] = (lo, hi)
            self._keep = getattr(self, "_keep", [])
            self._keep.append(a)

    def _ivl_decide(self, c):
        k = c.decl().kind()
        if k == z3.Z3_OP_NOT:
            r = self._ivl_decide(c.arg(0))
            return None if r is None else (not r)
        if k not in (z3.Z3_OP_LE, z3.Z3_OP_GE, z3.Z3_OP_LT, z3.Z3_OP_GT, z3.Z3_OP_EQ, z3.Z3_OP_DISTINCT) or c.num_args() != 2:
            return None
        a, b = c.arg(0), c.arg(1)
        if z3.is_int_value(a) and self._atom(b):
            a, b = b, a
            k = {z3.Z3_OP_LE: z3.Z3_OP_GE, z3.Z3_OP_GE: z3.Z3_OP_LE, z3.Z3_OP_LT: z3.Z3_OP_GT, z3.Z3_OP_GT: z3.Z3_OP_LT}.get(k, k)
        if not (self._atom(a) and z3.is_int_value(b)):
            return None
        iv = self.ivl.get(a.get_id())
        if iv is None:
            return None
        lo, hi = iv
        v = b.as_long()
        if k == z3.Z3_OP_LE:
            return True if hi is not None and hi <= v else False if lo is not None and lo > v else None
        if k == z3.Z3_OP_LT:
            return True if hi is not None and hi < v else False if lo is not None and lo >= v else None
        if k == z3.Z3_OP_GE:
            return True if lo is not None and lo >= v else False if hi is not None and hi < v else None
        if k == z3.Z3_OP_GT:
            return True if lo is not None and lo > v else False if hi is not None and hi <= v else None
        if k == z3.Z3_OP_EQ:
            if (lo is not None and v < lo) or (hi is not None and v > hi):
                return False
            return True if lo == hi == v else None
        if k == z3.Z3_OP_DISTINCT:
            if (lo is not None and v < lo) or (hi is not None and v > hi):
                return True
            return False if lo == hi == v else None
        return None

    # ---- path state
    def start_path(self, prefix):
        self.prefix = prefix
        self.trace = []
        self.pc = []
        self.obl = []
        self.fresh_n = 0
        self.notes = []
        self.shrink = []
        self.ivl = {}
        self.solver.push()

    def end_path(self):
        self.solver.pop()

    def assume(self, c):
        if isinstance(c, SymBool):
            c = c.z
        if c is True:
            return
        if c is False:
            c = z3.BoolVal(False)
        self.pc.append(c)
        self.solver.add(c)
        try:
            self._ivl_learn(c)
        except Exception:
            pass

    def _check(self, *extra):
        self.stats.queries += 1
        t = time.time()
        self.solver.push()
        for e in extra:
            self.solver.add(e)
        r = str(self.solver.check())
        m = None
        if r == "sat":
            m = self.solver.model()
        self.solver.pop()
        self.stats.solver_s += time.time() - t
        if r == "unknown":
            self.stats.unknown += 1
        return r, m

    def sat(self, *extra):
        return self._check(*extra)[0]

    def branch(self, cond):
        if isinstance(cond, SymBool):
            cond = cond.z
        if isinstance(cond, bool):
            return cond
        cond = z3.simplify(cond)
        if z3.is_true(cond):
            return True
        if z3.is_false(cond):
            return False
        try:
            fd = self._ivl_decide(cond)
        except Exception:
            fd = None
        if fd is not None:
            self.fast_decisions += 1
            return fd
        i = len(self.trace)
        if i < len(self.prefix):
            d = self.prefix[i]
        else:
            t = self.sat(cond) != "unsat"
            f = self.sat(z3.Not(cond)) != "unsat"
            if t and f:
                self.work.append(self.trace + [False])
                d = True
            elif t:
                d = True
            elif f:
                d = False
            else:
                raise PathAbort("infeasible path")
        self.trace.append(d)
        self.assume(cond if d else z3.Not(cond))
        return d

    def fresh(self, name, sort=None):
        """A fresh constant, named deterministically by call order within a path."""
        self.fresh_n += 1
        nm = f"{name}!{self.fresh_n}"
        return z3.Const(nm, sort if sort is not None else z3.IntSort())

    def oblige(self, name, phi, info=None):
        if isinstance(phi, SymBool):
            phi = phi.z
        if isinstance(phi, bool):
            phi = z3.BoolVal(phi)
        self.obl.append((name, phi, info))

    def concretise(self, x):
        """Pick a model value for x, pin it on this path, record the cut."""
        if not isinstance(x, SymInt):
            return x
        r, m = self._check()
        if r != "sat":
            raise PathAbort("concretise on infeasible/unknown path")
        v = m.eval(x.z, model_completion=True).as_long()
        self.assume(x.z == v)
        self.stats.concretisations += 1
        return v

    def model_dict(self, m):
        out = {}
        sorts = {}
        for d in m.decls():
            v = m[d]
            try:
                out[d.name()] = v.as_long() if hasattr(v, "as_long") else str(v)
                if z3.is_bv(v):
                    sorts[d.name()] = v.size()
                elif z3.is_int(v):
                    sorts[d.name()] = 0
                elif z3.is_bool(v):
                    out[d.name()] = bool(z3.is_true(v))
                    sorts[d.name()] = -1
            except Exception:
                out[d.name()] = str(v)
        out["__sorts__"] = sorts
        return out


class ConcreteEngine:
    """Runs the same harness function on the path's witness model with REAL ints (ConcInt): C-level reads see the
    true value, so any silent divergence between proxy execution and real execution shows up as an obligation that
    is false on a concrete run of the real code."""

    concrete = True

    def __init__(self, model, stats, timeout_ms):
        self.model = model
        self.stats = stats
        self.obl = []
        self.notes = []
        self.shrink = []
        self.pc = []
        self.trace = []
        self.work = []
        self.fresh_n = 0
        self.infeasible = False
        self._solver = None
        self.timeout_ms = timeout_ms

    def ev(self, c):
        if isinstance(c, SymBool):
            c = c.z
        if isinstance(c, bool):
            return c
        v = self.model.eval(c, model_completion=True)
        if z3.is_true(v):
            return True
        if z3.is_false(v):
            return False
        v = z3.simplify(v)
        if z3.is_true(v):
            return True
        if z3.is_false(v):
            return False
        raise PathAbort("concrete twin: condition not decided by the model")

    def assume(self, c):
        if c is True:
            return
        if not self.ev(c):
            raise PathAbort("infeasible: concrete twin left the path")

    def branch(self, cond):
        return self.ev(cond)

    def sat(self, *extra):
        s = z3.Solver()
        s.set("timeout", self.timeout_ms)
        for e in extra:
            s.add(e)
        return str(s.check())

    def _check(self, *extra):
        s = z3.Solver()
        s.set("timeout", self.timeout_ms)
        for e in extra:
            s.add(e)
        r = str(s.check())
        return r, (s.model() if r == "sat" else None)

    def fresh(self, name, sort=None):
        self.fresh_n += 1
        return z3.Const(f"{name}!{self.fresh_n}", sort if sort is not None else z3.IntSort())

    def oblige(self, name, phi, info=None):
        self.obl.append((name, phi, info))

    def concretise(self, x):
        return int(x) if not isinstance(x, SymInt) else x

    def model_dict(self, m):
        return Engine.model_dict(self, m)


class ConcInt(int):
    """a real int that also offers `.z` (its numeral), so harness code written for proxies runs unchanged."""

    @property
    def z(self):
        return z3.IntVal(int(self))


ENG: Engine | None = None
# eager mode: comparisons of SymInts branch immediately and return a real bool (needed where the result
# is handed to C code, e.g. a numpy boolean mask).  Always sound: it only splits paths earlier.
EAGER = False
# a harness may allow f-string formatting of a proxy where the real code only formats it into an error message
FORMAT_PLACEHOLDER = False


class eager:
    def __enter__(self):
        global EAGER
        self.old = EAGER
        EAGER = True

    def __exit__(self, *a):
        global EAGER
        EAGER = self.old


def eng() -> Engine:
    assert ENG is not None
    return ENG


def explore(fn, setup=None, max_paths=20000, timeout_ms=5000, stop_on_fail=True, twin=True, budget_s=None,
            witness=False):
    """Run fn() on every feasible path.

    fn may call eng().assume/oblige/branch; may return a z3 Bool / SymBool / bool
    (an extra obligation named 'post'), or None.
    Returns Stats.  stats.failed holds reproducible-model candidates.
    """
    global ENG
    E = Engine(timeout_ms)
    ENG = E
    work = [[]]
    t0 = time.time()
    while work:
        pre = work.pop()
        E.start_path(pre)
        E.work = []
        post = None
        ok = True
        try:
            if setup:
                setup()
            post = fn()
        except Unsupported as e:
            E.stats.unsupported.append(str(e)[:200])
            ok = False
        except PathAbort as e:
            if "infeasible" not in str(e):
                E.stats.unsupported.append("abort:" + str(e)[:200])
            ok = False
        E.stats.paths += 1
        if ok:
            if post is not None:
                E.oblige("post", post)
            # reachability twin: the path itself must be satisfiable
            wmodel = None
            if twin:
                r, wmodel = E._check()
                if r == "sat":
                    E.stats.witness_paths += 1
            if witness and wmodel is not None:
                # concrete twin of this path on its witness model (real ints through the real code)
                CE = ConcreteEngine(wmodel, E.stats, timeout_ms)
                ENG = CE
                try:
                    p2 = fn()
                    if p2 is not None:
                        CE.oblige("post", p2)
                    E.stats.concrete_twins = getattr(E.stats, "concrete_twins", 0) + 1
                    for name, phi, info in CE.obl:
                        try:
                            okc = CE.ev(phi)
                        except PathAbort:
                            continue
                        if not okc:
                            E.stats.failed.append(dict(name=name, model=E.model_dict(wmodel), info=info,
                                                       decisions=list(E.trace), notes=["concrete witness twin"]))
                except (Unsupported, PathAbort):
                    pass
                finally:
                    ENG = E
            # discharge obligations: all at once first
            obl = E.obl
            E.stats.obligations += len(obl)
            if obl:
                allphi = z3.And([p for _, p, _ in obl]) if len(obl) > 1 else obl[0][1]
                r, m = E._check(z3.Not(allphi))
                if r == "unsat":
                    E.stats.discharged += len(obl)
                else:
                    for name, phi, info in obl:
                        r, m = E._check(z3.Not(phi))
                        if r == "unsat":
                            E.stats.discharged += 1
                        elif r == "sat":
                            if E.shrink:
                                r2, m2 = E._check(z3.Not(phi), *E.shrink)
                                if r2 == "sat":
                                    m = m2
                            E.stats.failed.append(
                                dict(name=name, model=E.model_dict(m), info=info, decisions=list(E.trace),
                                     notes=list(E.notes))
                            )
                        else:
                            E.stats.inconclusive += 1
        work.extend(E.work)
        E.end_path()
        if E.stats.failed and stop_on_fail:
            break
        if E.stats.paths >= max_paths:
            E.stats.unsupported.append("path limit")
            break
        if budget_s is not None and time.time() - t0 > budget_s:
            E.stats.unsupported.append("time budget")
            break
    ENG = None
    return E.stats


def is_concrete():
    return getattr(ENG, "concrete", False)


# --------------------------------------------------------------------------- proxies


def _z(x):
    if isinstance(x, SymInt):
        return x.z
    if isinstance(x, SymBool):
        return z3.If(x.z, z3.IntVal(1), z3.IntVal(0))
    if isinstance(x, bool):
        return z3.IntVal(int(x))
    if isinstance(x, int):
        return z3.IntVal(x)
    try:
        import numpy as np

        if isinstance(x, np.integer):
            return z3.IntVal(int(x))
    except Exception:
        pass
    return None


def zint(x):
    """z3 term of a python int or SymInt."""
    r = _z(x)
    if r is None:
        raise HarnessError(f"not an int: {x!r}")
    return r


def pyfloordiv(a, b):
    if z3.is_int_value(b):
        bv = b.as_long()
        if bv > 0:
            return a / b
        if bv < 0:
            return (-a) / (-b)
        raise ZeroDivisionError("symbolic // 0")
    return z3.If(b > 0, a / b, (-a) / (-b))


def pymod(a, b):
    if z3.is_int_value(b):
        bv = b.as_long()
        if bv > 0:
            return a % b
        if bv == 0:
            raise ZeroDivisionError("symbolic % 0")
    return a - b * pyfloordiv(a, b)


class SymBool:
    __slots__ = ("z",)

    def __init__(self, z):
        self.z = z

    def __bool__(self):
        return eng().branch(self.z)

    def _o(self, o):
        return o.z if isinstance(o, SymBool) else z3.BoolVal(bool(o))

    def __and__(self, o):
        return SymBool(z3.And(self.z, self._o(o)))

    __rand__ = __and__

    def __or__(self, o):
        return SymBool(z3.Or(self.z, self._o(o)))

    __ror__ = __or__

    def __invert__(self):
        return SymBool(z3.Not(self.z))

    def __eq__(self, o):
        return SymBool(self.z == self._o(o))

    def __ne__(self, o):
        return SymBool(self.z != self._o(o))

    def __hash__(self):
        return self.z.hash()

    def __repr__(self):
        return f"SymBool({self.z})"


class SymInt(int):
    def __new__(cls, z):
        o = int.__new__(cls, POISON)
        o.z = z
        return o

    def __init__(self, z):
        pass

    # -- things that cannot stay symbolic
    def __str__(self):
        raise Unsupported("str of symbolic int")

    def __format__(self, f):
        if FORMAT_PLACEHOLDER:
            return "<symbolic>"
        raise Unsupported("format of symbolic int")

    def __index__(self):
        raise Unsupported("index of symbolic int")

    def __int__(self):
        raise Unsupported("int() of symbolic int")

    def __float__(self):
        raise Unsupported("float() of symbolic int")

    def __truediv__(self, o):
        raise Unsupported("true division of symbolic int")

    def __rtruediv__(self, o):
        raise Unsupported("true division by symbolic int")

    def __trunc__(self):
        raise Unsupported("trunc of symbolic int")

    def __repr__(self):
        return f"Sym({self.z})"

    def __reduce__(self):
        raise Unsupported("pickle of symbolic int")

    def __copy__(self):
        return self

    def __deepcopy__(self, memo):
        return self

    # -- arithmetic
    def _bin(self, o, f):
        zo = _z(o)
        if zo is None:
            return NotImplemented
        return SymInt(f(self.z, zo))

    def _rbin(self, o, f):
        zo = _z(o)
        if zo is None:
            return NotImplemented
        return SymInt(f(zo, self.z))

    def __add__(self, o):
        return self._bin(o, lambda a, b: a + b)

    def __radd__(self, o):
        return self._rbin(o, lambda a, b: a + b)

    def __sub__(self, o):
        return self._bin(o, lambda a, b: a - b)

    def __rsub__(self, o):
        return self._rbin(o, lambda a, b: a - b)

    def __mul__(self, o):
        return self._bin(o, lambda a, b: a * b)

    def __rmul__(self, o):
        return self._rbin(o, lambda a, b: a * b)

    def __floordiv__(self, o):
        return self._bin(o, pyfloordiv)

    def __rfloordiv__(self, o):
        return self._rbin(o, pyfloordiv)

    def __mod__(self, o):
        return self._bin(o, pymod)

    def __rmod__(self, o):
        return self._rbin(o, pymod)

    def __divmod__(self, o):
        return (self // o, self % o)

    def __neg__(self):
        return SymInt(-self.z)

    def __pos__(self):
        return self

    def __abs__(self):
        return SymInt(z3.If(self.z >= 0, self.z, -self.z))

    def __pow__(self, o, mod=None):
        if isinstance(o, SymInt) or mod is not None:
            raise Unsupported("symbolic pow")
        if isinstance(o, int) and 0 <= o <= 8:
            r = z3.IntVal(1)
            for _ in range(o):
                r = r * self.z
            return SymInt(r)
        raise Unsupported("pow")

    def __rpow__(self, o):
        raise Unsupported("symbolic exponent")

    def __lshift__(self, o):
        if isinstance(o, SymInt) or not isinstance(o, int) or o < 0:
            raise Unsupported("symbolic shift amount")
        return SymInt(self.z * (1 << o))

    def __rshift__(self, o):
        if isinstance(o, SymInt) or not isinstance(o, int) or o < 0:
            raise Unsupported("symbolic shift amount")
        return SymInt(self.z / (1 << o))

    def __rlshift__(self, o):
        raise Unsupported("symbolic shift amount")

    def __rrshift__(self, o):
        raise Unsupported("symbolic shift amount")

    def __and__(self, o):
        # x & (2^k - 1) is a modulo
        if isinstance(o, int) and not isinstance(o, SymInt) and o >= 0 and (o & (o + 1)) == 0:
            return SymInt(self.z % (o + 1))
        if isinstance(o, int) and not isinstance(o, SymInt) and o >= 0 and bin(o).count("1") <= 16:
            # bit by bit: bit b of x is (x div 2^b) mod 2 (floor semantics, so two's complement for negative x too)
            r = z3.IntVal(0)
            for b in range(o.bit_length()):
                if (o >> b) & 1:
                    r = r + ((self.z / (1 << b)) % 2) * (1 << b)
            return SymInt(r)
        raise Unsupported("bitwise and of symbolic int")

    __rand__ = __and__

    def __or__(self, o):
        raise Unsupported("bitwise or of symbolic int")

    __ror__ = __or__

    def __xor__(self, o):
        raise Unsupported("bitwise xor of symbolic int")

    __rxor__ = __xor__

    def __invert__(self):
        return SymInt(-self.z - 1)

    def bit_length(self):
        raise Unsupported("bit_length of symbolic int")

    def bit_count(self):
        raise Unsupported("bit_count of symbolic int")

    def to_bytes(self, *a, **k):
        raise Unsupported("to_bytes of symbolic int")

    def __ceil__(self):
        return self

    def __floor__(self):
        return self

    def __round__(self, n=None):
        return self

    def conjugate(self):
        return self

    @property
    def real(self):
        return self

    @property
    def numerator(self):
        return self

    # -- comparisons
    def _cmp(self, o, f):
        zo = _z(o)
        if zo is None:
            return NotImplemented
        if EAGER:
            return eng().branch(f(self.z, zo))
        return SymBool(f(self.z, zo))

    def __eq__(self, o):
        zo = _z(o)
        if zo is None:
            return False
        if EAGER:
            return eng().branch(self.z == zo)
        return SymBool(self.z == zo)

    def __ne__(self, o):
        zo = _z(o)
        if zo is None:
            return True
        if EAGER:
            return eng().branch(self.z != zo)
        return SymBool(self.z != zo)

    def __lt__(self, o):
        return self._cmp(o, lambda a, b: a < b)

    def __le__(self, o):
        return self._cmp(o, lambda a, b: a <= b)

    def __gt__(self, o):
        return self._cmp(o, lambda a, b: a > b)

    def __ge__(self, o):
        return self._cmp(o, lambda a, b: a >= b)

    def __bool__(self):
        return eng().branch(self.z != 0)

    def __hash__(self):
        if ENG is not None:
            ENG.stats.hash_calls += 1
        return self.z.hash()


def install_c_guards():
    """C functions that read an int subclass by value would silently consume the poison.  Make the ones that return
    small results proxy-aware (gcd with a concrete partner is modelled exactly) or loud."""
    import math

    if getattr(math, "_verif_guarded", False):
        return
    _gcd = math.gcd

    def gcd(*args):
        if not any(isinstance(a, SymInt) for a in args):
            return _gcd(*args)
        syms = [a for a in args if isinstance(a, SymInt)]
        conc = [a for a in args if not isinstance(a, SymInt)]
        if len(syms) != 1 or not conc:
            raise Unsupported("gcd of symbolic ints")
        c = abs(_gcd(*conc))
        if c == 0:
            return abs(syms[0])
        x = syms[0].z
        divs = sorted((d for d in range(1, c + 1) if c % d == 0), reverse=True)
        if len(divs) > 64:
            raise Unsupported("gcd with many divisors")
        # largest divisor of c that divides x: nested ite, larger divisors outermost
        r = z3.IntVal(1)
        for d in sorted(divs):
            if d != 1:
                r = z3.If(x % d == 0, z3.IntVal(d), r)
        return SymInt(r)

    def loud(name, f):
        def g(*a, **k):
            if any(isinstance(x, SymInt) for x in a):
                raise Unsupported(f"math.{name} of symbolic int")
            return f(*a, **k)
        return g

    math.gcd = gcd
    for nm in ("lcm", "isqrt", "comb", "perm", "factorial"):
        setattr(math, nm, loud(nm, getattr(math, nm)))
    math._verif_guarded = True


def pin_model(model):
    """assume every variable of a stored model equal to its value (concrete replay through the same code)."""
    sorts = model.get("__sorts__", {})
    for n, w in sorts.items():
        v = model[n]
        if w > 0:
            eng().assume(z3.BitVec(n, w) == z3.BitVecVal(int(v), w))
        elif w == 0:
            eng().assume(z3.Int(n) == int(v))
        elif w == -1:
            eng().assume(z3.Bool(n) == bool(v))


def sym(name, lo=None, hi=None):
    """Fresh named symbolic int with optional bounds assumed on the current path."""
    v = z3.Int(name)
    if lo is not None:
        eng().assume(v >= lo)
    if hi is not None:
        eng().assume(v <= hi)
    if getattr(ENG, "concrete", False):
        return ConcInt(ENG.model.eval(v, model_completion=True).as_long())
    return SymInt(v)


def sym_bv(name, width=32, lo=0, hi=None):
    """symbolic int backed by a bit-vector variable (unsigned value): Int2BV(BV2Int(x)) folds back to x, which keeps
    queries about emitted IR constants in pure bit-vector logic.  Returns (proxy, bitvector term)."""
    bv = z3.BitVec(name, width)
    t = z3.BV2Int(bv, False)
    if lo is not None:
        eng().assume(t >= lo)
    if hi is not None:
        eng().assume(t <= hi)
    if getattr(ENG, "concrete", False):
        return ConcInt(ENG.model.eval(t, model_completion=True).as_long()), bv
    return SymInt(t), bv


def is_sym(x):
    return isinstance(x, (SymInt, SymBool))


def zsimp(x):
    if isinstance(x, SymInt):
        return str(z3.simplify(x.z))
    return x


def contains_poison(x):
    """scan a python value tree / string for the poison base value."""
    return str(POISON) in str(x)
