import dataclasses


@dataclasses.dataclass
class Config:
    strict: bool = False
