"""Minimal stand-in for the `dacite` package (absent from this sandbox), enough for snaxc.tools.config_parser:
from_dict(data_class, data, config) builds (nested) dataclasses from dicts; lists and unions of dataclasses are
resolved by field names; Config(strict=True) rejects unknown keys. Contract stub, not a reimplementation."""
import dataclasses
import types
import typing

from .config import Config  # noqa: F401


class DaciteError(Exception):
    pass


def _conv(tp, value, strict):
    origin = typing.get_origin(tp)
    if tp is type(None) or tp is None:
        if value is not None:
            raise DaciteError(f"expected None, got {value!r}")
        return None
    if origin in (typing.Union, types.UnionType):
        errs = []
        for alt in typing.get_args(tp):
            try:
                return _conv(alt, value, strict)
            except DaciteError as e:
                errs.append(str(e))
        raise DaciteError("no union member matches: " + "; ".join(errs))
    if origin in (list, typing.List):
        (elt,) = typing.get_args(tp)
        if not isinstance(value, list):
            raise DaciteError(f"expected list, got {type(value).__name__}")
        return [_conv(elt, v, strict) for v in value]
    if dataclasses.is_dataclass(tp):
        return from_dict(tp, value, Config(strict=strict))
    if isinstance(tp, type) and not isinstance(value, tp):
        raise DaciteError(f"expected {tp.__name__}, got {type(value).__name__}")
    return value


def from_dict(data_class, data, config=None):
    strict = bool(getattr(config, "strict", False))
    if not isinstance(data, dict):
        raise DaciteError(f"expected a mapping for {data_class.__name__}")
    hints = typing.get_type_hints(data_class)
    names = {f.name for f in dataclasses.fields(data_class)}
    if strict and set(data) - names:
        raise DaciteError(f"unexpected keys {sorted(set(data) - names)} for {data_class.__name__}")
    kwargs = {}
    for f in dataclasses.fields(data_class):
        if f.name in data:
            kwargs[f.name] = _conv(hints[f.name], data[f.name], strict)
        elif f.default is dataclasses.MISSING and f.default_factory is dataclasses.MISSING:
            raise DaciteError(f"missing field {f.name} of {data_class.__name__}")
    return data_class(**kwargs)
