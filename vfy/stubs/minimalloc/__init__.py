"""Contract stub for the absent `minimalloc` package (environment dependency of snaxc.transforms.snax_allocate).

Problem.solve() returns FRESH SYMBOLIC offsets constrained only by minimalloc's documented contract:
  offset % alignment == 0, 0 <= offset, offset + size <= capacity, and buffers whose [start_time, end_time]
  intervals intersect do not overlap in address space.
Outside a symbolic exploration (no engine) it falls back to a deterministic first-fit allocator so that the
module stays importable and usable by concrete runs.
"""

import z3

LOG = []  # (buffers as tuples, capacity) per solve() call; read by the harness


class Buffer:
    def __init__(self, id, start_time, end_time, size, alignment=1, *a, **k):
        self.id = id
        self.start_time = start_time
        self.end_time = end_time
        self.size = size
        self.alignment = alignment

    def __repr__(self):
        return f"Buffer({self.id}, {self.start_time}, {self.end_time}, {self.size}, {self.alignment})"


class Problem:
    def __init__(self, buffers, capacity):
        self.buffers = list(buffers)
        self.capacity = capacity

    def solve(self):
        from vfy import sym

        LOG.append(([(b.id, b.start_time, b.end_time, b.size, b.alignment) for b in self.buffers], self.capacity))
        E = sym.ENG
        if E is None or getattr(E, "concrete", False):
            return self._first_fit()
        offs = []
        n0 = len([1 for l in LOG]) - 1
        for k, b in enumerate(self.buffers):
            o = z3.Int(f"mm_off_{n0}_{k}")
            offs.append(o)
            al = b.alignment if isinstance(b.alignment, int) and b.alignment > 0 else 1
            E.assume(z3.And(o >= 0, o + sym.zint(b.size) <= sym.zint(self.capacity), o % al == 0))
        for i, a in enumerate(self.buffers):
            for j, b in enumerate(self.buffers[:i]):
                if a.start_time <= b.end_time and b.start_time <= a.end_time:
                    E.assume(z3.Or(offs[i] + sym.zint(a.size) <= offs[j], offs[j] + sym.zint(b.size) <= offs[i]))
        return [sym.SymInt(o) for o in offs]

    def _first_fit(self):
        placed = []
        out = []
        for b in self.buffers:
            al = max(1, int(b.alignment or 1))
            o = 0
            while True:
                o = (o + al - 1) // al * al
                clash = [p for p in placed if p[0].start_time <= b.end_time and b.start_time <= p[0].end_time
                         and not (o + int(b.size) <= p[1] or p[1] + int(p[0].size) <= o)]
                if not clash:
                    break
                o = max(p[1] + int(p[0].size) for p in clash)
            if o + int(b.size) > int(self.capacity):
                raise RuntimeError("minimalloc stub: out of memory")
            placed.append((b, o))
            out.append(o)
        return out
