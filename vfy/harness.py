"""Glue between per-property harnesses, the path explorer and the runner."""

from __future__ import annotations

import traceback

from . import sym
from .sym import explore


def run_case(fn, replay=None, signature=None, sample=None, timeout_ms=5000, max_paths=5000, key=None,
             stop_on_fail=True, budget_s=None, reject=(Exception,), witness=False):
    """Explore fn on all paths.  On a failed obligation call replay(failed_dict)->(bool, detail) on the real
    code with plain values.  Exceptions of the real code (type in `reject`) on *every* path => rejected input."""
    rej = []

    def wrapped():
        try:
            return fn()
        except reject as e:  # the real code raised: not evidence for or against
            rej.append(f"{type(e).__name__}: {str(e)[:80]}")
            if len(rej) <= 1:
                rej.append(traceback.format_exc()[-600:])
            raise sym.PathAbort("infeasible: rejected")

    st = explore(wrapped, timeout_ms=timeout_ms, max_paths=max_paths, stop_on_fail=stop_on_fail, budget_s=budget_s,
                 witness=witness)
    out = dict(stats=st.as_dict(), violations=[], nontrivial=st.obligations > 0)
    if key is not None:
        out["key"] = key
    if rej and st.obligations == 0:
        out["rejected"] = rej[0]
        out["rejected_tb"] = rej[1] if len(rej) > 1 else ""
        return out
    if rej:
        out["partial_rejects"] = rej[0]
    for f in st.failed:
        v = dict(obligation=f["name"], model=f["model"], info=f.get("info"), notes=f.get("notes"))
        if replay is not None:
            try:
                ok, detail = replay(f)
            except Exception as e:
                if "CaseTimeout" in f"{e}\n{traceback.format_exc()}":
                    from .runner import CaseTimeout

                    raise CaseTimeout()  # the watchdog fired inside a C call during the replay: the case is a timeout
                ok, detail = False, f"replay crashed: {type(e).__name__}: {e}\n{traceback.format_exc()[-800:]}"
            v["replayed"] = bool(ok)
            v["detail"] = detail
        else:
            v["replayed"] = False
            v["detail"] = "no replayer"
        v["signature"] = signature(f, v) if callable(signature) else (signature or f["name"])
        out["violations"].append(v)
    if sample is not None:
        out["sample"] = sample() if callable(sample) else sample
    return out


def replay_pinned(fn, failed, timeout_ms=5000):
    """Concrete replay: re-run the harness function (which re-parses and re-runs the real pass) with every model
    variable pinned to its value; reproduced iff the same obligation fails again."""
    model = failed["model"]

    def pinned():
        sym.pin_model(model)
        return fn()

    st = explore(pinned, timeout_ms=timeout_ms, max_paths=50, stop_on_fail=True)
    names = [f["name"] for f in st.failed]
    ok = failed["name"] in names or bool(names)
    same = [f for f in st.failed if f["name"] == failed["name"]]
    info = (same or st.failed)[0].get("info") if st.failed else None
    return ok, dict(failed_again=names[:3], info=info, paths=st.paths)


def mval(model, name, default=0):
    """model value for a (possibly missing = don't-care) variable."""
    v = model.get(name, default)
    if isinstance(v, str):
        try:
            return int(v)
        except Exception:
            return default
    return v
