"""Layer I: a symbolic interpreter for xDSL IR objects (no printing/parsing).

Run-time values are z3 terms: iN -> BitVec(N), index -> BitVec(W).  Branches and
loop exits go through the Layer-S engine so a path fixes the control skeleton
while data stays symbolic.  Effects are recorded in ``events`` and/or applied to
machine state by harness-registered handlers.  With concrete (numeral) inputs
the same code is the replayer (all branch conditions simplify to constants).
"""

from __future__ import annotations

import z3
from xdsl.dialects import arith, builtin, func, scf
from xdsl.dialects.builtin import IndexType, IntegerType
from xdsl.ir import Block, Operation, SSAValue

from . import sym
from .sym import SymInt, Unsupported, eng


class Undefined(Exception):
    """use of an SSA value that has not been defined on this execution"""


class InterpError(Exception):
    pass


FLOAT_SORTS = {}


def float_sort(name):
    if name not in FLOAT_SORTS:
        FLOAT_SORTS[name] = z3.DeclareSort("F_" + name)
    return FLOAT_SORTS[name]


def int_term_to_bv(t, w):
    """Int term -> BitVec(w) modulo 2^w, pushed through the ring operations (Int2BV is a ring homomorphism),
    so that Int2BV(BV2Int(x) + c) becomes x + c instead of an opaque int_to_bv application."""
    if z3.is_int_value(t):
        return z3.BitVecVal(t.as_long(), w)
    k = t.decl().kind()
    if k == z3.Z3_OP_ADD:
        r = int_term_to_bv(t.arg(0), w)
        for i in range(1, t.num_args()):
            r = r + int_term_to_bv(t.arg(i), w)
        return r
    if k == z3.Z3_OP_SUB:
        r = int_term_to_bv(t.arg(0), w)
        for i in range(1, t.num_args()):
            r = r - int_term_to_bv(t.arg(i), w)
        return r
    if k == z3.Z3_OP_MUL:
        r = int_term_to_bv(t.arg(0), w)
        for i in range(1, t.num_args()):
            r = r * int_term_to_bv(t.arg(i), w)
        return r
    if k == z3.Z3_OP_UMINUS:
        return -int_term_to_bv(t.arg(0), w)
    if k == z3.Z3_OP_ITE:
        return z3.If(t.arg(0), int_term_to_bv(t.arg(1), w), int_term_to_bv(t.arg(2), w))
    if k in (z3.Z3_OP_BV2INT, getattr(z3, "Z3_OP_UBV2INT", -1)):
        x = t.arg(0)
        if x.size() == w:
            return x
        if x.size() > w:
            return z3.Extract(w - 1, 0, x)
        return z3.ZeroExt(w - x.size(), x)
    if k == getattr(z3, "Z3_OP_SBV2INT", -2):
        x = t.arg(0)
        if x.size() == w:
            return x
        if x.size() > w:
            return z3.Extract(w - 1, 0, x)
        return z3.SignExt(w - x.size(), x)
    return z3.Int2BV(t, w)


def bv_of_int(x, w):
    """python int / SymInt -> BitVec(w) (two's complement wrap)."""
    if isinstance(x, SymInt):
        return int_term_to_bv(z3.simplify(x.z), w)
    return z3.BitVecVal(int(x), w)


def bvval(x):
    x = z3.simplify(x)
    if z3.is_bv_value(x):
        return x.as_long()
    return None


class Opaque:
    """A non-scalar run-time value (state, token, descriptor...)."""

    def __init__(self, kind, **kw):
        self.kind = kind
        self.__dict__.update(kw)

    def __repr__(self):
        return f"<{self.kind} {self.__dict__}>"


class Interp:
    def __init__(self, W=32, K=3, shared=None, handlers=None, name="p", intmode=False):
        """intmode: integers/index are mathematical z3 Ints (adds the assumption 'no overflow, unsigned ops see
        non-negative operands'); otherwise bit-vectors of the declared width (index = W bits)."""
        self.W = W
        self.K = K
        self.intmode = intmode
        self.env: dict[SSAValue, object] = {}
        self.events: list = []
        self.handlers = dict(DEFAULT_HANDLERS)
        if intmode:
            self.handlers.update(ARITH_INT)
        if handlers:
            self.handlers.update(handlers)
        # opaque-result environment shared between two programs (keyed by call order)
        self.shared = shared if shared is not None else {}
        self.counters: dict = {}
        self.name = name
        self.steps = 0
        self.max_steps = 200000
        self.modules = []
        self.state = {}  # machine state for harness handlers
        self.loop_trips = []

    # ---- types
    def width(self, t):
        if isinstance(t, IndexType):
            return self.W
        if isinstance(t, IntegerType):
            return t.width.data
        raise InterpError(f"no width for type {t}")

    def sort_of(self, t):
        if isinstance(t, (IndexType, IntegerType)):
            if self.intmode:
                return z3.IntSort()
            return z3.BitVecSort(self.width(t))
        if isinstance(t, builtin.AnyFloat):
            return float_sort(t.name.replace(".", "_"))
        return None

    def fresh_for(self, key, t):
        """shared fresh value for (key, occurrence) of type t."""
        n = self.counters.get(key, 0)
        self.counters[key] = n + 1
        k = (key, n)
        if k not in self.shared:
            s = self.sort_of(t)
            if s is None:
                self.shared[k] = Opaque("opaque", key=k, type=str(t))
            else:
                self.shared[k] = z3.Const(f"{key}#{n}", s)
        return self.shared[k]

    # ---- env
    def get(self, v: SSAValue):
        try:
            return self.env[v]
        except KeyError:
            raise Undefined(f"SSA value used before definition: {v} (owner {getattr(v.owner, 'name', v.owner)})")

    def set(self, v: SSAValue, x):
        self.env[v] = x

    # ---- execution
    def run_func(self, fn: func.FuncOp, args):
        blk = fn.body.blocks[0]
        assert len(args) == len(blk.args), (len(args), len(blk.args))
        for a, v in zip(blk.args, args):
            self.env[a] = v
        return self.run_block(blk)

    def run_block(self, block: Block):
        """Runs ops; returns the operands of the terminator (evaluated) or None."""
        for op in block.ops:
            self.steps += 1
            if self.steps > self.max_steps:
                raise sym.PathAbort("step budget")
            r = self.run_op(op)
            if r is not None:
                return r
        return None

    def run_op(self, op: Operation):
        h = self.handlers.get(op.name)
        if h is None:
            h = self.handlers.get("*")
            if h is None:
                raise InterpError(f"unhandled op {op.name}")
        return h(self, op)

    # ---- helpers for handlers
    def vals(self, op):
        return [self.get(o) for o in op.operands]

    def emit(self, *ev):
        self.events.append(ev)


# ------------------------------------------------------------------ arith


def _const(I: Interp, op):
    t = op.result.type
    v = op.value
    if isinstance(v, builtin.IntegerAttr):
        I.set(op.result, bv_of_int(v.value.data, I.width(t)))
    elif isinstance(v, builtin.FloatAttr):
        s = I.sort_of(t)
        I.set(op.result, z3.Const(f"fconst_{v.value.data!r}_{t.name}".replace(" ", ""), s))
    elif isinstance(v, builtin.DenseIntOrFPElementsAttr):
        I.set(op.result, Opaque("dense", attr=v))
    else:
        raise InterpError(f"constant {v}")


def _bin(f):
    def h(I, op):
        a, b = I.vals(op)
        I.set(op.results[0], f(a, b))

    return h


def _sdiv_floor(a, b):
    q = a / b  # bvsdiv, truncates
    r = z3.SRem(a, b)
    adj = z3.And(r != 0, (r < 0) != (b < 0))
    return z3.If(adj, q - 1, q)


def _sdiv_ceil(a, b):
    q = a / b
    r = z3.SRem(a, b)
    adj = z3.And(r != 0, (r < 0) == (b < 0))
    return z3.If(adj, q + 1, q)


def _udiv_ceil(a, b):
    q = z3.UDiv(a, b)
    r = z3.URem(a, b)
    return z3.If(r != 0, q + 1, q)


CMPI = {
    0: lambda a, b: a == b,
    1: lambda a, b: a != b,
    2: lambda a, b: a < b,
    3: lambda a, b: a <= b,
    4: lambda a, b: a > b,
    5: lambda a, b: a >= b,
    6: lambda a, b: z3.ULT(a, b),
    7: lambda a, b: z3.ULE(a, b),
    8: lambda a, b: z3.UGT(a, b),
    9: lambda a, b: z3.UGE(a, b),
}


def b2bv(c):
    return z3.If(c, z3.BitVecVal(1, 1), z3.BitVecVal(0, 1))


def bv2b(x):
    return x == z3.BitVecVal(1, 1)


def _cmpi(I, op):
    a, b = I.vals(op)
    p = op.predicate.value.data
    I.set(op.result, b2bv(CMPI[p](a, b)))


def _select(I, op):
    c, a, b = I.vals(op)
    if isinstance(a, Opaque) or isinstance(b, Opaque):
        # select between opaque objects: decide by branching
        I.set(op.result, a if eng().branch(bv2b(c)) else b)
    else:
        I.set(op.result, z3.If(bv2b(c), a, b))


def _cast_resize(signed):
    def h(I, op):
        (a,) = I.vals(op)
        wi = a.size()
        wo = I.width(op.results[0].type)
        if wo == wi:
            r = a
        elif wo < wi:
            r = z3.Extract(wo - 1, 0, a)
        else:
            r = z3.SignExt(wo - wi, a) if signed else z3.ZeroExt(wo - wi, a)
        I.set(op.results[0], r)

    return h


def _float_bin(name):
    def h(I, op):
        a, b = I.vals(op)
        s = a.sort()
        f = z3.Function(f"{name}_{s.name()}", s, s, s)
        I.set(op.results[0], f(a, b))

    return h


def _uf_unary(name):
    def h(I, op):
        (a,) = I.vals(op)
        so = I.sort_of(op.results[0].type)
        f = z3.Function(f"{name}_{a.sort().name()}_{so.name()}", a.sort(), so)
        I.set(op.results[0], f(a))

    return h


def _shl(a, b):
    return a << b


ARITH = {
    "arith.constant": _const,
    "arith.addi": _bin(lambda a, b: a + b),
    "arith.subi": _bin(lambda a, b: a - b),
    "arith.muli": _bin(lambda a, b: a * b),
    "arith.divui": _bin(z3.UDiv),
    "arith.divsi": _bin(lambda a, b: a / b),
    "arith.floordivsi": _bin(_sdiv_floor),
    "arith.ceildivsi": _bin(_sdiv_ceil),
    "arith.ceildivui": _bin(_udiv_ceil),
    "arith.remui": _bin(z3.URem),
    "arith.remsi": _bin(z3.SRem),
    "arith.andi": _bin(lambda a, b: a & b),
    "arith.ori": _bin(lambda a, b: a | b),
    "arith.xori": _bin(lambda a, b: a ^ b),
    "arith.shli": _bin(_shl),
    "arith.shrui": _bin(z3.LShR),
    "arith.shrsi": _bin(lambda a, b: a >> b),
    "arith.minsi": _bin(lambda a, b: z3.If(a < b, a, b)),
    "arith.maxsi": _bin(lambda a, b: z3.If(a > b, a, b)),
    "arith.minui": _bin(lambda a, b: z3.If(z3.ULT(a, b), a, b)),
    "arith.maxui": _bin(lambda a, b: z3.If(z3.UGT(a, b), a, b)),
    "arith.cmpi": _cmpi,
    "arith.select": _select,
    "arith.index_cast": _cast_resize(True),
    "arith.index_castui": _cast_resize(False),
    "arith.extsi": _cast_resize(True),
    "arith.extui": _cast_resize(False),
    "arith.trunci": _cast_resize(False),
    "arith.addf": _float_bin("addf"),
    "arith.subf": _float_bin("subf"),
    "arith.mulf": _float_bin("mulf"),
    "arith.divf": _float_bin("divf"),
    "arith.maximumf": _float_bin("maximumf"),
    "arith.minimumf": _float_bin("minimumf"),
    "arith.maxnumf": _float_bin("maxnumf"),
    "arith.minnumf": _float_bin("minnumf"),
    "arith.negf": _uf_unary("negf"),
    "arith.sitofp": _uf_unary("sitofp"),
    "arith.uitofp": _uf_unary("uitofp"),
    "arith.fptosi": _uf_unary("fptosi"),
    "arith.fptoui": _uf_unary("fptoui"),
    "arith.extf": _uf_unary("extf"),
    "arith.truncf": _uf_unary("truncf"),
    "arith.bitcast": _uf_unary("bitcast"),
}


# ------------------------------------------------------------------ arith, mathematical-integer mode


def _const_int(I, op):
    v = op.value
    if isinstance(v, builtin.IntegerAttr):
        I.set(op.result, sym.zint(v.value.data))
    else:
        _const(I, op)


def _nonneg_div(f):
    def h(I, op):
        a, b = I.vals(op)
        # unsigned op on mathematical ints: only defined for a >= 0, b > 0. Obligations are discharged against the final
        # path condition, so an assumption here would silently excuse whatever was obliged before it: fork instead, and
        # give up on the path (counted as unsupported, visible in the evidence) where the operands are out of range
        if not eng().branch(z3.And(a >= 0, b > 0)):
            raise sym.Unsupported("unsigned division / remainder reached with a negative operand or a divisor <= 0")
        I.state["int_div_assumptions"] = I.state.get("int_div_assumptions", 0) + 1
        I.set(op.results[0], f(a, b))

    return h


def _cmpi_int(I, op):
    a, b = I.vals(op)
    p = op.predicate.value.data
    f = {0: lambda: a == b, 1: lambda: a != b, 2: lambda: a < b, 3: lambda: a <= b, 4: lambda: a > b,
         5: lambda: a >= b, 6: lambda: a < b, 7: lambda: a <= b, 8: lambda: a > b, 9: lambda: a >= b}[p]
    I.set(op.result, z3.If(f(), z3.IntVal(1), z3.IntVal(0)))


def _select_int(I, op):
    c, a, b = I.vals(op)
    I.set(op.result, z3.If(c != 0, a, b))


def _ident(I, op):
    (a,) = I.vals(op)
    I.set(op.results[0], a)


ARITH_INT = {
    "arith.constant": _const_int,
    "arith.addi": _bin(lambda a, b: a + b),
    "arith.subi": _bin(lambda a, b: a - b),
    "arith.muli": _bin(lambda a, b: a * b),
    "arith.divui": _nonneg_div(lambda a, b: a / b),
    "arith.divsi": _nonneg_div(lambda a, b: a / b),
    "arith.floordivsi": _nonneg_div(lambda a, b: a / b),
    "arith.ceildivui": _nonneg_div(lambda a, b: (a + b - 1) / b),
    "arith.ceildivsi": _nonneg_div(lambda a, b: (a + b - 1) / b),
    "arith.remui": _nonneg_div(lambda a, b: a % b),
    "arith.remsi": _nonneg_div(lambda a, b: a % b),
    "arith.minsi": _bin(lambda a, b: z3.If(a < b, a, b)),
    "arith.maxsi": _bin(lambda a, b: z3.If(a > b, a, b)),
    "arith.minui": _bin(lambda a, b: z3.If(a < b, a, b)),
    "arith.maxui": _bin(lambda a, b: z3.If(a > b, a, b)),
    "arith.cmpi": _cmpi_int,
    "arith.select": _select_int,
    "arith.index_cast": _ident,
    "arith.index_castui": _ident,
    "arith.extsi": _ident,
    "arith.extui": _ident,
    "arith.trunci": _ident,
}


# ------------------------------------------------------------------ scf / func


def _for(I: Interp, op: scf.ForOp):
    lb, ub, st = I.get(op.lb), I.get(op.ub), I.get(op.step)
    carried = [I.get(v) for v in op.iter_args]
    body = op.body.blocks[0]
    k = 0
    while True:
        iv = lb + k * st
        # exit test (signed, as scf.for specifies)
        if not eng().branch(iv < ub):
            break
        if k >= I.K:
            # unwinding assumption: count it, cut the path here by assuming exit
            eng().stats.unwinding_assumptions += 1
            raise sym.PathAbort("infeasible: unwinding bound")  # path excluded from the claim
        I.set(body.args[0], iv)
        for a, v in zip(body.args[1:], carried):
            I.set(a, v)
        h = I.handlers.get("@for_iter")
        if h:
            h(I, op, k)
        r = I.run_block(body)
        carried = list(r) if r is not None else []
        k += 1
    I.loop_trips.append(k)
    for res, v in zip(op.results, carried):
        I.set(res, v)
    h = I.handlers.get("@for_exit")
    if h:
        h(I, op, k)


def _if(I: Interp, op: scf.IfOp):
    c = I.get(op.cond)
    if eng().branch(c != 0 if I.intmode else bv2b(c)):
        r = I.run_block(op.true_region.blocks[0])
    else:
        r = I.run_block(op.false_region.blocks[0]) if op.false_region.blocks else None
    for res, v in zip(op.results, r or []):
        I.set(res, v)
    h = I.handlers.get("@if_exit")
    if h:
        h(I, op)


def _while(I: Interp, op: scf.WhileOp):
    vals = [I.get(v) for v in op.arguments]
    k = 0
    while True:
        bb = op.before_region.blocks[0]
        for a, v in zip(bb.args, vals):
            I.set(a, v)
        r = I.run_block(bb)  # scf.condition returns ('cond', c, args)
        assert r and r[0] == "cond"
        c, cargs = r[1], r[2]
        if not eng().branch(bv2b(c)):
            for res, v in zip(op.results, cargs):
                I.set(res, v)
            break
        if k >= I.K:
            eng().stats.unwinding_assumptions += 1
            raise sym.PathAbort("infeasible: unwinding bound")
        ab = op.after_region.blocks[0]
        for a, v in zip(ab.args, cargs):
            I.set(a, v)
        r2 = I.run_block(ab)
        vals = list(r2) if r2 is not None else []
        k += 1


def _yield(I, op):
    return tuple(I.get(o) for o in op.operands)


def _condition(I, op):
    return ("cond", I.get(op.operands[0]), [I.get(o) for o in op.operands[1:]])


def _return(I, op):
    return tuple(I.get(o) for o in op.operands)


def _ucc(I, op):
    # builtin.unrealized_conversion_cast: identity on the run-time value
    ins = I.vals(op)
    if len(ins) == len(op.results):
        for r, v in zip(op.results, ins):
            I.set(r, v)
    else:
        raise InterpError("unrealized_conversion_cast n->m")


def _testop(I, op):
    """test.op: an effectful opaque op. Event with evaluated scalar operands; fresh results."""
    ident = tuple(sorted((k, str(v)) for k, v in list(op.attributes.items()) + list(op.properties.items())))
    ins = I.vals(op)
    key = ("test.op", ident, tuple(str(r.type) for r in op.results), len(ins))
    I.emit("op", "test.op", ident, tuple(ins))
    for i, r in enumerate(op.results):
        I.set(r, I.fresh_for((key, i), r.type))
    if op.regions:
        raise InterpError("test.op with regions")


def _call_opaque(I, op):
    ins = I.vals(op)
    I.emit("call", op.callee.root_reference.data, tuple(ins))
    for i, r in enumerate(op.results):
        I.set(r, I.fresh_for(("call", op.callee.root_reference.data, i), r.type))


def _noop(I, op):
    return None


DEFAULT_HANDLERS = dict(ARITH)
DEFAULT_HANDLERS.update(
    {
        "scf.for": _for,
        "scf.if": _if,
        "scf.while": _while,
        "scf.yield": _yield,
        "scf.condition": _condition,
        "func.return": _return,
        "func.call": _call_opaque,
        "builtin.unrealized_conversion_cast": _ucc,
        "test.op": _testop,
    }
)


# ------------------------------------------------------------------ trace comparison


def term_eq(a, b):
    """z3 Bool for equality of two run-time values (None if not comparable structurally)."""
    if isinstance(a, Opaque) or isinstance(b, Opaque):
        return z3.BoolVal(a is b)
    if isinstance(a, (tuple, list)) and isinstance(b, (tuple, list)):
        if len(a) != len(b):
            return z3.BoolVal(False)
        cs = [term_eq(x, y) for x, y in zip(a, b)]
        return z3.And(cs) if cs else z3.BoolVal(True)
    if z3.is_expr(a) and z3.is_expr(b):
        if a.sort() != b.sort():
            return z3.BoolVal(False)
        return a == b
    return z3.BoolVal(a == b)


def compare_traces(t1, t2, oblige, what="trace"):
    """Shape must agree exactly (same event kinds/static payload); dynamic payload equality becomes obligations."""
    if len(t1) != len(t2):
        oblige(f"{what}:length", False, dict(len1=len(t1), len2=len(t2), t1=_short(t1), t2=_short(t2)))
        return
    for i, (e1, e2) in enumerate(zip(t1, t2)):
        if len(e1) != len(e2) or e1[0] != e2[0]:
            oblige(f"{what}:kind", False, dict(i=i, e1=_short([e1]), e2=_short([e2])))
            return
        for x, y in zip(e1[1:], e2[1:]):
            oblige(f"{what}:event{i}", term_eq(x, y), dict(i=i, e1=_short([e1]), e2=_short([e2])))


def _short(t):
    return [str(e)[:160] for e in t[:12]]


def module_funcs(m):
    return [o for o in m.ops if isinstance(o, func.FuncOp)]


def sym_args(I: Interp, fn: func.FuncOp, prefix="arg"):
    out = []
    for i, a in enumerate(fn.body.blocks[0].args):
        s = I.sort_of(a.type)
        if s is None:
            out.append(Opaque("arg", index=i, type=str(a.type)))
        else:
            out.append(z3.Const(f"{prefix}{i}", s))
    return out
