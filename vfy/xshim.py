"""Environment shim: make snaxc importable on the xdsl 0.70.0 that /venv ships.

Five dialect files write ``irdl_options = [...]`` (a list); xdsl 0.70.0 wants a
tuple.  We convert the class attribute before the original ``from_pyrdl`` runs.
Nothing in /repo is touched.  Also puts /repo on sys.path (working tree, no
cache) and makes the ``minimalloc`` contract stub importable.
"""

import os
import sys

REPO = os.environ.get("VERIF_REPO", "/repo")
if REPO not in sys.path:
    sys.path.insert(0, REPO)
_STUBS = os.path.join(os.path.dirname(os.path.abspath(__file__)), "stubs")
if _STUBS not in sys.path:
    sys.path.append(_STUBS)

sys.dont_write_bytecode = True
os.environ.setdefault("SNAX_MLIR_VERIF", "1")

import xdsl.irdl.operations as _ops  # noqa: E402

from . import sym as _sym  # noqa: E402

_sym.install_c_guards()  # before any snaxc module binds `from math import gcd` etc.

if not getattr(_ops.OpDef, "_verif_shimmed", False):
    _orig = _ops.OpDef.from_pyrdl

    def _from_pyrdl(pyrdl_def):
        for k in pyrdl_def.__mro__:
            v = k.__dict__.get("irdl_options")
            if isinstance(v, list):
                setattr(k, "irdl_options", tuple(v))
        return _orig(pyrdl_def)

    _ops.OpDef.from_pyrdl = staticmethod(_from_pyrdl)
    _ops.OpDef._verif_shimmed = True


def make_ctx():
    """A context with every snaxc dialect/pass registered (as snax-opt has)."""
    from snaxc.tools.snax_opt_main import SNAXOptMain

    return SNAXOptMain(args=[]).ctx


def make_main():
    from snaxc.tools.snax_opt_main import SNAXOptMain

    return SNAXOptMain(args=[])


def apply_passes(module, spec, main=None):
    """run a textual pass pipeline (as snax-opt -p would) in-process on a module; returns the context used."""
    from xdsl.passes import PassPipeline

    main = main or make_main()
    PassPipeline.parse_spec(main.available_passes, spec).apply(main.ctx, module)
    return main.ctx


def repo_head():
    import subprocess

    try:
        h = subprocess.run(["git", "-C", REPO, "rev-parse", "HEAD"], capture_output=True, text=True).stdout.strip()
        d = subprocess.run(["git", "-C", REPO, "status", "--porcelain"], capture_output=True, text=True).stdout.strip()
        return h + ("+dirty" if d else "")
    except Exception:
        return "unknown"
