"""Check driver: parallel case execution, violation triage (replay, known findings),
evidence writing.  Exit codes: 0 held, 1 VIOLATION, 2 harness error."""

from __future__ import annotations

import json
import multiprocessing as mp
import os
import sys
import time
import traceback

ROOT = os.path.dirname(os.path.dirname(os.path.abspath(__file__)))
NPROC = int(os.environ.get("VERIF_NPROC", str(min(16, os.cpu_count() or 4))))


def load_known():
    p = os.path.join(ROOT, "known_findings.json")
    if not os.path.exists(p):
        return {"findings": [], "fixed": []}
    with open(p) as f:
        return json.load(f)


class CaseResult(dict):
    """dict with keys: case, stats(dict), violations(list), rejected(str|None), sample(any), nontrivial(bool),
    error(str|None)"""


class CaseTimeout(BaseException):
    pass


CASE_TIMEOUT_S = int(os.environ.get("VERIF_CASE_TIMEOUT", "90"))


def _alarm(signum, frame):
    raise CaseTimeout()


def _run_one(args):
    import signal

    fn, case, kw = args
    t0 = time.time()
    try:
        signal.signal(signal.SIGALRM, _alarm)
        signal.alarm(CASE_TIMEOUT_S)
        try:
            r = fn(case, **kw)
        finally:
            signal.alarm(0)
    except CaseTimeout:
        # e.g. a rewrite pass that does not terminate on this input: tallied, never a verdict
        r = dict(rejected=f"case timeout after {CASE_TIMEOUT_S}s (pass or exploration did not finish)")
    except BaseException as e:  # harness crash in worker: report, never a verdict
        if "CaseTimeout" in f"{type(e).__name__}: {e}\n{traceback.format_exc()}":
            # the alarm went off inside a C call (z3 via ctypes): it surfaces wrapped in another exception
            r = dict(rejected=f"case timeout after {CASE_TIMEOUT_S}s (pass or exploration did not finish)")
        else:
            r = dict(error=f"{type(e).__name__}: {e}\n{traceback.format_exc()[-1500:]}")
    r.setdefault("case", str(case)[:300])
    r["wall_s"] = round(time.time() - t0, 3)
    return r


def _run_chunk(jobs):
    return [_run_one(j) for j in jobs]


def pmap(fn, cases, kw=None, nproc=None, chunks=1, budget_s=None):
    """Run fn(case, **kw) over cases in a fork pool; returns list of results (order preserved)."""
    kw = kw or {}
    nproc = nproc or NPROC
    jobs = [(fn, c, kw) for c in cases]
    if nproc <= 1 or len(jobs) <= 1:
        return [_run_one(j) for j in jobs]
    chunks = max(1, min(chunks, len(jobs) // (nproc * 2) or 1))
    cj = [jobs[i:i + chunks] for i in range(0, len(jobs), chunks)]
    ctx = mp.get_context("fork")
    out = []
    t0 = time.time()
    with ctx.Pool(nproc, maxtasksperchild=50) as pool:
        it = pool.imap(_run_chunk, cj)
        for i in range(len(cj)):
            try:
                if budget_s is not None:
                    left = budget_s - (time.time() - t0)
                    if left <= 0:
                        raise mp.TimeoutError()
                    out.extend(it.next(timeout=left))
                else:
                    out.extend(it.next())
            except mp.TimeoutError:
                pool.terminate()
                for c in cj[i:]:
                    for j in c:
                        out.append(dict(case=str(j[1])[:300], skipped="time budget"))
                break
    return out


SUM_KEYS = ("paths", "queries", "unknown", "obligations", "discharged", "inconclusive", "unwinding_assumptions",
            "concretisations", "hash_calls", "witness_paths", "concrete_twins", "solver_s", "unsupported", "failed")


class Check:
    def __init__(self, pid, level, tier, seed):
        self.pid = pid
        self.level = level
        self.tier = tier
        self.seed = seed
        self.t0 = time.time()
        self.tot = {k: 0 for k in SUM_KEYS}
        self.cases = 0
        self.nontrivial = 0
        self.rejected = {}
        self.skipped = 0
        self.errors = []
        self.violations = []  # dicts with signature, detail, replay path
        self.samples = []
        self.sections = {}
        self.assumptions = []
        self.functions = []
        self.bounds = {}
        self.outside = []
        self.explanation = ""
        self.extra = {}
        self.unsupported_reasons = set()
        self.distinct = set()

    # ---- aggregation
    def add_results(self, section, results, sample_n=3):
        sec = self.sections.setdefault(section, dict(cases=0, **{k: 0 for k in SUM_KEYS}, rejected=0, skipped=0))
        for r in results:
            if r.get("skipped"):
                self.skipped += 1
                sec["skipped"] += 1
                continue
            self.cases += 1
            sec["cases"] += 1
            if r.get("error"):
                self.errors.append((section, r.get("case"), r["error"]))
                continue
            if r.get("rejected"):
                k = r["rejected"][:120]
                self.rejected[k] = self.rejected.get(k, 0) + 1
                sec["rejected"] += 1
                continue
            st = r.get("stats") or {}
            for k in SUM_KEYS:
                v = st.get(k, 0)
                self.tot[k] += v
                sec[k] += v
            for u in st.get("unsupported_reasons", []):
                self.unsupported_reasons.add(u)
            if r.get("nontrivial", True):
                key = r.get("key", r.get("case"))
                if key not in self.distinct:
                    self.distinct.add(key)
                    self.nontrivial += 1
            for v in r.get("violations", []):
                v = dict(v)
                v["section"] = section
                v.setdefault("case", r.get("case"))
                self.violations.append(v)
            if r.get("sample") is not None and sum(1 for s in self.samples if s.get("section") == section) < sample_n:
                self.samples.append(dict(section=section, case=r.get("case"), sample=r["sample"]))
        for k in ("solver_s",):
            sec[k] = round(sec[k], 3)

    # ---- finishing
    def finish(self):
        for v in self.violations:
            v.setdefault("seed", self.seed)
            v.setdefault("tier", self.tier)
        if getattr(self, "dry", False):
            return 0
        known = load_known()
        kf = {(f["property"], f["signature"]): f for f in known.get("findings", [])}
        new, listed = [], {}
        os.makedirs(os.path.join(ROOT, "replays"), exist_ok=True)
        nonrepro = []
        for v in self.violations:
            if not v.get("replayed", False):
                nonrepro.append(v)
                continue
            sig = v.get("signature", "unclassified")
            if (self.pid, sig) in kf:
                listed.setdefault(sig, []).append(v)
            else:
                new.append(v)
        rc = 0
        for n, (sig, vs) in enumerate(sorted(listed.items())):
            what = kf[(self.pid, sig)].get("what", "")
            print(f"KNOWN-FINDING: property={self.pid} {sig} ({len(vs)} instance(s) this run): {what[:300]}")
            with open(os.path.join(ROOT, "replays", f"known_{self.pid}_{n}.json"), "w") as f:
                json.dump(dict(vs[0], instances=len(vs)), f, indent=1, default=str)
        seen = set()
        for i, v in enumerate(new):
            sig = v.get("signature", "unclassified")
            if sig in seen:
                continue
            seen.add(sig)
            v = dict(v, instances=sum(1 for w in new if w.get("signature", "unclassified") == sig))
            p = os.path.join(ROOT, "replays", f"{self.pid}_{len(seen)}_{abs(hash(json.dumps(v, default=str, sort_keys=True))) % 10**8}.json")
            with open(p, "w") as f:
                json.dump(v, f, indent=1, default=str)
            print(f"VIOLATION property={self.pid} replay={p}")
            print(f"  signature={sig} detail={str(v.get('detail'))[:400]}")
            rc = 1
        if nonrepro:
            print(f"HARNESS-ERROR: {len(nonrepro)} counterexample(s) did not reproduce on the real code: "
                  f"{str(nonrepro[0])[:600]}", file=sys.stderr)
            rc = max(rc, 2) if rc != 1 else 1
        if self.errors:
            print(f"HARNESS-ERROR: {len(self.errors)} case(s) crashed in the harness; first: {self.errors[0]}", file=sys.stderr)
            if rc == 0:
                rc = 2
        twin_ok = self.tot["witness_paths"] > 0 or self.extra.get("twin_ok", False)
        if not twin_ok and self.cases > 0:
            print("HARNESS-ERROR: reachability twin failed (no satisfiable path reached the assertions)", file=sys.stderr)
            if rc == 0:
                rc = 2
        self.write_evidence(len(new), len(listed), twin_ok)
        dt = time.time() - self.t0
        print(f"[{self.pid}] tier={self.tier} cases={self.cases} nontrivial={self.nontrivial} paths={self.tot['paths']} "
              f"obligations={self.tot['obligations']} discharged={self.tot['discharged']} "
              f"inconclusive={self.tot['inconclusive']} unsupported={self.tot['unsupported']} "
              f"rejected={sum(self.rejected.values())} skipped={self.skipped} violations={len(new)} "
              f"known={sum(len(v) for v in listed.values())} solver_s={self.tot['solver_s']:.1f} wall_s={dt:.1f} rc={rc}")
        return rc

    def write_evidence(self, n_new, n_known_sigs, twin_ok):
        cov = dict(
            explanation=self.explanation,
            programs=self.cases,
            evaluations=self.cases,
            distinct_nontrivial=self.nontrivial,
            rule=self.extra.get("rule", "cases are enumerated structures (programs/configurations); each is explored "
                                "on all feasible paths with symbolic data; distinct = distinct structure key; "
                                "non-trivial = reached at least one obligation"),
            disagreements_checked=len(self.violations),
            obligations=self.tot["obligations"],
            discharged=self.tot["discharged"],
            inconclusive=self.tot["inconclusive"],
            paths=self.tot["paths"],
            queries=self.tot["queries"],
            solver_unknown=self.tot["unknown"],
            solver_s=round(self.tot["solver_s"], 2),
            unsupported_paths=self.tot["unsupported"],
            unsupported_reasons=sorted(self.unsupported_reasons)[:12],
            unwinding_assumptions=self.tot["unwinding_assumptions"],
            concretisations=self.tot["concretisations"],
            symbolic_hash_calls=self.tot["hash_calls"],
            reachability_twin_ok=twin_ok,
            witness_paths=self.tot["witness_paths"],
            concrete_witness_twins=self.tot["concrete_twins"],
            rejected_inputs=self.rejected,
            skipped_for_time=self.skipped,
            harness_errors=len(self.errors),
            functions_encoded=self.functions,
            bounds=self.bounds,
            outside_the_claim=self.outside,
            sections=self.sections,
            known_finding_signatures_hit=n_known_sigs,
            samples=self.samples[:12] or [dict(note="no sample recorded")],
            exhaustive=False,
            repo=self.extra.get("repo"),
        )
        for k, v in self.extra.items():
            if k not in cov:
                cov[k] = v
        ev = dict(
            property_id=self.pid,
            tier=self.tier,
            seed=self.seed,
            level=self.level,
            coverage=cov,
            assumptions=self.assumptions,
            wall_s=round(time.time() - self.t0, 2),
            violations=n_new,
        )
        os.makedirs(os.path.join(ROOT, "evidence"), exist_ok=True)
        with open(os.path.join(ROOT, "evidence", f"{self.pid}.json"), "w") as f:
            json.dump(ev, f, indent=1, default=str)
