"""C08 - generated configuration values line up with field names."""

from __future__ import annotations

import itertools
import random

import z3

from .. import irsym, sym, xshim
from ..harness import mval, replay_pinned, run_case
from ..irsym import Opaque
from ..runner import pmap
from ..sym import SymInt, eng

LEVEL = "other"


# ------------------------------------------------------------------ evaluating the value-computing ops


def eval_setup(ops, ptr_vals):
    """runs the ops returned by convert_to_acc_ops up to the accfg.setup; returns ({field: term}, setup, launch)."""
    from snaxc.dialects import accfg

    I = irsym.Interp(W=32)
    for v, t in ptr_vals.items():
        I.set(v, t)

    def h_ptr(I, op):
        I.set(op.results[0], I.fresh_for(("ptr", str(op.source.type)[:20], id(op.source) % 1000), op.results[0].type))

    def h_meta(I, op):
        for i, r in enumerate(op.results):
            if isinstance(r.type, (irsym.IndexType, irsym.IntegerType)):
                I.set(r, I.fresh_for(("meta", i), r.type))
            else:
                I.set(r, Opaque("memref"))

    def h_dim(I, op):
        I.set(op.result, I.fresh_for(("dim",), op.result.type))

    I.handlers.update({"memref.extract_aligned_pointer_as_index": h_ptr, "memref.extract_strided_metadata": h_meta, "memref.dim": h_dim})
    setup = launch = None
    for op in ops:
        if isinstance(op, accfg.SetupOp):
            setup = op
            break
        I.run_op(op)
    for op in ops:
        if isinstance(op, accfg.LaunchOp):
            launch = op
    vals = {}
    names = [n for n, _ in setup.iter_params()]
    for n, v in setup.iter_params():
        vals[n] = I.get(v)
    return vals, names, setup, launch, I


BVREG = {}


def getbv(nm, lo):
    v, bv = sym.sym_bv(nm, 32, lo, (1 << 31) - 1)
    BVREG[id(v)] = bv
    BVREG[nm] = bv
    return v


def bv32(x):
    if z3.is_expr(x):
        return x
    if id(x) in BVREG and isinstance(x, int) and not type(x) is int:
        return BVREG[id(x)]
    return irsym.bv_of_int(x, 32)


def zgt1(x):
    return z3.UGT(bv32(x), 1)


def zeq0(x):
    return bv32(x) == 0


# ------------------------------------------------------------------ generic streamer spec (by field NAME)


def streamer_spec(acc, patterns, ptrs, zero_operands, xdma=False):
    """expected term per streamer field name.  patterns: list of (ub[], ts[], ss[]) python/Sym ints."""
    from snaxc.accelerators.streamers.streamers import HasAddressRemap, HasBroadcast, HasByteMask, HasChannelMask, StreamerFlag
    from snaxc.accelerators.streamers.extensions.transpose_extension import TransposeExtension

    exp = {}
    for k, (name, st) in enumerate(zip(acc.streamer_names, acc.streamer_config.data.streamers)):
        ub, ts, ss = patterns[k]
        zero = k in zero_operands
        exp[f"{name}_ptr_low"] = z3.BitVecVal(acc.zero_address, 32) if zero else ptrs[k]
        exp[f"{name}_ptr_high"] = z3.BitVecVal(0, 32)
        for j in range(st.spatial_dim):
            exp[f"{name}_sstride_{j}"] = bv32(ss[j])
        for i, flag in enumerate(st.temporal_dims):
            b = ub[i] if i < len(ub) else 1
            s = ts[i] if i < len(ts) else 0
            bz, sz = bv32(b), bv32(s)
            if flag == StreamerFlag.Reuse:
                bz = z3.If(z3.And(zgt1(b), zeq0(s)), z3.BitVecVal(1, 32), bz)
            exp[f"{name}_bound_{i}"] = bz
            exp[f"{name}_tstride_{i}"] = sz
        opts = st.opts
        if not xdma:
            if any(isinstance(o, HasAddressRemap) for o in opts):
                exp[f"{name}_address_remap"] = z3.BitVecVal(0, 32)
            if any(isinstance(o, HasChannelMask) for o in opts):
                exp[f"{name}_channel_mask"] = z3.BitVecVal(0 if zero else 0xFFFFFFFF, 32)
            if any(isinstance(o, TransposeExtension) for o in opts):
                exp[f"{name}_transpose"] = z3.BitVecVal(0, 32)
            if any(isinstance(o, HasBroadcast) for o in opts):
                exp[f"{name}_broadcast"] = z3.If(z3.Or([zeq0(ss[j]) for j in range(st.spatial_dim)] or [z3.BoolVal(False)]),
                                                  z3.BitVecVal(1, 32), z3.BitVecVal(0, 32))
        else:
            exp[f"{name}_enabled_chan"] = z3.BitVecVal(0 if zero else 0xFFFFFFFF, 32)
            if any(isinstance(o, HasByteMask) for o in opts):
                exp[f"{name}_enabled_byte"] = z3.BitVecVal(0 if zero else 0xFFFFFFFF, 32)
    return exp


def oblige_fields(E, acc, vals, names, exp, where):
    E.oblige("fields:one_value_per_declared_field_in_order", z3.BoolVal(tuple(names) == tuple(acc.fields)),
             dict(setup=names[:40], declared=list(acc.fields)[:40], where=where))
    if tuple(names) != tuple(acc.fields):
        return  # names and values are misaligned as a whole: per-field checks would only repeat the root cause
    for n, t in exp.items():
        if n not in vals:
            E.oblige(f"fields:value_present", False, dict(field=n, where=where))
            continue
        got = vals[n]
        if z3.is_bv(got) and z3.is_bv(t) and got.size() != t.size():
            got = z3.ZeroExt(t.size() - got.size(), got) if got.size() < t.size() else z3.Extract(t.size() - 1, 0, got)
        kind = n.split("_", 1)[1] if "_" in n else n
        kind = "".join(c for c in kind if not c.isdigit()).rstrip("_")
        E.oblige(f"field_value:{kind}", got == t, dict(field=n, where=where))


# ------------------------------------------------------------------ snax_alu (generic streamer code) with symbolic patterns


def mk_config(desc, systype="reg"):
    from snaxc.accelerators.streamers.extensions import STREAMER_OPT_MAP
    from snaxc.accelerators.streamers.streamers import Streamer, StreamerConfiguration, StreamerSystemType, StreamerType

    return StreamerConfiguration([Streamer(StreamerType(t), list(temp), [8] * nsp, [STREAMER_OPT_MAP[o]() for o in opts])
                                  for (t, temp, nsp, opts) in desc], StreamerSystemType(systype))


def sym_patterns(desc, get, used_dims):
    pats = []
    for k, (t, temp, nsp, opts) in enumerate(desc):
        nt = used_dims[k]
        ub = [get(f"ub{k}_{i}", 0) for i in range(nt)]
        ts = [get(f"ts{k}_{i}", 0) for i in range(nt)]
        ss = [get(f"ss{k}_{j}", 0) for j in range(nsp)]
        pats.append((ub, ts, ss))
    return pats


class Declined(Exception):
    """the compiler (here: the op verifier) refuses the input."""


def case_alu(case):
    from xdsl.dialects import arith, test
    from xdsl.dialects.builtin import IndexType, IntegerAttr
    from xdsl.ir import Block, Region

    from snaxc.accelerators.snax_alu import SNAXAluAccelerator
    from snaxc.accelerators.streamers.streamers import StreamerFlag
    from snaxc.dialects import snax_stream

    desc, used_dims, zero_ops = case[:3]
    argptr = case[3] if len(case) > 3 else frozenset()

    class ArgPtr:
        def __init__(self, v):
            self.results = [v]

    def build(get):
        argblock = Block(arg_types=[IndexType()] * len(desc))
        acc = SNAXAluAccelerator(mk_config(desc)) if desc is not None else SNAXAluAccelerator()
        d = desc
        pats = sym_patterns(d, get, used_dims)
        srcs = []
        for k in range(len(d)):
            if k in zero_ops:
                srcs.append(arith.ConstantOp(IntegerAttr(0, IndexType())))
            elif k in argptr:
                srcs.append(ArgPtr(argblock.args[k]))  # the pointer is a block argument (e.g. a function argument)
            else:
                srcs.append(test.TestOp(result_types=[IndexType()]))
        sp = [snax_stream.StridePattern(*p) for p in pats]
        nin = len(d) - 1
        op = snax_stream.StreamingRegionOp([s.results[0] for s in srcs[:nin]], [s.results[0] for s in srcs[nin:]], sp, "snax_alu", Region(Block()))
        if any(u > len(dd[1]) for u, dd in zip(used_dims, d)):
            # a pattern with more loops than its own streamer has: the op verifier decides whether it is accepted
            from xdsl.dialects import builtin
            from xdsl.utils.exceptions import VerifyException

            argblock.add_ops([s for s in srcs if not isinstance(s, ArgPtr)] + [op])
            holder = builtin.ModuleOp([acc.generate_acc_op(), test.TestOp(regions=[Region(argblock)])])
            try:
                op.verify_()
            except VerifyException as e:
                raise Declined(str(e)[:80])
            finally:
                for o in list(argblock.ops):
                    o.detach()
        ops = acc.convert_to_acc_ops(op)
        return acc, pats, srcs, ops

    def fn():
        E = eng()

        acc, pats, srcs, ops = build(getbv)
        E.oblige("verifier:an_accepted_pattern_has_no_more_loops_than_its_streamer", z3.BoolVal(all(u <= len(dd[1]) for u, dd in zip(used_dims, desc))),
                 dict(used_dims=used_dims, streamer_dims=[len(dd[1]) for dd in desc]))
        if any(u > len(dd[1]) for u, dd in zip(used_dims, desc)):
            return
        # precondition of the generator: irrelevant temporal dims carry stride 0
        for k, (t, temp, nsp, opts) in enumerate(desc):
            for i, f in enumerate(temp):
                if f == "i" and i < used_dims[k]:
                    E.assume(sym.zint(pats[k][1][i]) == 0)
                    E.assume(zeq0(pats[k][1][i]))
        ptrs = {k: z3.BitVec(f"ptr{k}", 32) for k in range(len(desc))}
        vals, names, setup, launch, I = eval_setup(ops, {s.results[0]: ptrs[k] for k, s in enumerate(srcs) if k not in zero_ops})
        exp = streamer_spec(acc, pats, ptrs, zero_ops)
        exp["alu_mode"] = z3.BitVecVal(0, 32)
        oblige_fields(E, acc, vals, names, exp, "snax_alu")
        # kernel loop count == number of temporal steps of the first stream
        steps = z3.IntVal(1)
        for b in pats[0][0]:
            steps = steps * sym.zint(b)
        if "loop_bound_alu" in vals and used_dims[0] <= 2:
            E.oblige("loop_count:equals_number_of_stream_steps", z3.BV2Int(vals["loop_bound_alu"], False) == steps,
                     dict(temporal_dims_used=used_dims[0]))
        E.oblige("launch:fields", z3.BoolVal(launch is not None and tuple(launch.param_names.data[i].data for i in range(len(launch.param_names.data))) == tuple(acc.launch_fields)))

    def replay(f):
        return replay_pinned(fn, f)

    def sig(f, v):
        s = f["name"]
        if s.startswith("loop_count") and used_dims[0] > 1:
            s += "|multi_dim_pattern"
        return s

    return run_case(fn, replay, signature=sig, sample=dict(config=str(desc), used_dims=used_dims, zero_operands=sorted(zero_ops), block_argument_pointers=sorted(argptr)),
                    key=str(case), max_paths=3000, witness=True)


# ------------------------------------------------------------------ gemmx through the real pipeline


def gemmx_src(M, N, K, i8out, qmac, rescale, rp=(3, -4, 127, -128), bias=False):
    zp = ", %zpa, %zpb" if qmac else ""
    zpt = ", i32, i32" if qmac else ""
    body_args = "%a : i8, %b : i8, %za : i32, %zb : i32, %acc : i32" if qmac else "%a : i8, %b : i8, %acc : i32"
    kop = "kernel.qmac %a, %b zp_lhs : %za zp_rhs : %zb : i8, i8, i32, i32 -> i32" if qmac else "kernel.mac %a, %b : i8, i8 -> i32"
    out_t = "i8" if i8out else "i32"
    if i8out:
        resc = """
    %r = "dart.generic"(%g) <{library_call = "snax_gemmx"}> ({
    ^bb2(%x : i32, %y : i8):
      %q = kernel.rescale %x {input_zp = RP0 : i32, output_zp = RP1 : i32, multiplier = array<i32: 1140768826>, shift = array<i32: 38>, max_int = RP2 : i32, min_int = RP3 : i32, double_round = true} : (i32) -> i8
      dart.yield %q : i8
    }) : (!dart.stream<i32>) -> !dart.stream<i8>
    dart.yield %r : !dart.stream<i8>"""
    else:
        resc = "\n    dart.yield %g : !dart.stream<i32>"
    for n_, v_ in enumerate(rp):
        resc = resc.replace(f"RP{n_}", str(v_))
    if bias and i8out and qmac:
        # D8 = rescale(A*B + C): three generics fused in one streaming region
        resc = resc.replace('"dart.generic"(%g)', '"dart.generic"(%h)')
        tcb = f"memref<{M}x{N}xi32, #tsl.tsl<[{M // 8}, 8] -> ({64 * (N // 8)}, 8), [{N // 8}, 8] -> (64, 1)>>"
        return f"""
func.func @f(%A : memref<{M}x{K}xi8>, %B : memref<{K}x{N}xi8, strided<[1, {K}]>>, %C : memref<{M}x{N}xi8>, %zpa : i32, %zpb : i32, %Cb : {tcb}) {{
  "dart.operation"(%A, %B, %Cb, %C) <{{patterns = [affine_map<(d0, d1, d2) -> (d0, d2)>, affine_map<(d0, d1, d2) -> (d2, d1)>, affine_map<(d0, d1, d2) -> (d0, d1)>, affine_map<(d0, d1, d2) -> (d0, d1)>], accelerator = "snax_gemmx", operandSegmentSizes = array<i32: 3, 1>}}> ({{
  ^bb0(%s0 : !dart.stream<i8>, %s1 : !dart.stream<i8>, %s3 : !dart.stream<i32>, %s2 : !dart.stream<i8>):
    %g = "dart.generic"(%s0, %s1, %zpa, %zpb) <{{library_call = "snax_gemmx"}}> ({{
    ^bb1(%a : i8, %b : i8, %za : i32, %zb : i32, %acc : i32):
      %m = kernel.qmac %a, %b zp_lhs : %za zp_rhs : %zb : i8, i8, i32, i32 -> i32
      dart.yield %m : i32
    }}) : (!dart.stream<i8>, !dart.stream<i8>, i32, i32) -> !dart.stream<i32>
    %h = "dart.generic"(%g, %s3) <{{library_call = "snax_gemmx"}}> ({{
    ^bb4(%p : i32, %q4 : i32, %o4 : i32):
      %r4 = kernel.add %p, %q4 : i32, i32 -> i32
      dart.yield %r4 : i32
    }}) : (!dart.stream<i32>, !dart.stream<i32>) -> !dart.stream<i32>{resc}
  }}) : (memref<{M}x{K}xi8>, memref<{K}x{N}xi8, strided<[1, {K}]>>, {tcb}, memref<{M}x{N}xi8>) -> ()
  func.return
}}
"""
    return f"""
func.func @f(%A : memref<{M}x{K}xi8>, %B : memref<{K}x{N}xi8, strided<[1, {K}]>>, %C : memref<{M}x{N}x{out_t}>, %zpa : i32, %zpb : i32) {{
  "dart.operation"(%A, %B, %C) <{{patterns = [affine_map<(d0, d1, d2) -> (d0, d2)>, affine_map<(d0, d1, d2) -> (d2, d1)>, affine_map<(d0, d1, d2) -> (d0, d1)>], accelerator = "snax_gemmx", operandSegmentSizes = array<i32: 2, 1>}}> ({{
  ^bb0(%s0 : !dart.stream<i8>, %s1 : !dart.stream<i8>, %s2 : !dart.stream<{out_t}>):
    %g = "dart.generic"(%s0, %s1{zp}) <{{library_call = "snax_gemmx"}}> ({{
    ^bb1({body_args}):
      %m = {kop}
      dart.yield %m : i32
    }}) : (!dart.stream<i8>, !dart.stream<i8>{zpt}) -> !dart.stream<i32>{resc}
  }}) : (memref<{M}x{K}xi8>, memref<{K}x{N}xi8, strided<[1, {K}]>>, memref<{M}x{N}x{out_t}>) -> ()
  func.return
}}
"""


def case_gemmx(case):
    from xdsl.parser import Parser

    from snaxc.dialects import accfg, snax_stream
    from snaxc.tools.snax_opt_main import SNAXOptMain

    M, N, K, i8out, qmac = case[:5]
    rp = case[5] if len(case) > 5 else (3, -4, 127, -128)
    bias = bool(case[6]) if len(case) > 6 else False
    src = gemmx_src(M, N, K, i8out, qmac, i8out, rp, bias)

    def pipeline():
        main = xshim.make_main()
        ctx = main.ctx
        m = Parser(ctx, src).parse_module()
        spec = "insert-accfg-op{accelerator=snax_gemmx},dart-scheduler,dart-layout-resolution,convert-dart-to-snax-stream"
        xshim.apply_passes(m, spec, main)
        regions = [o for o in m.walk() if isinstance(o, snax_stream.StreamingRegionOp)]
        assert len(regions) == 1
        region = regions[0]
        pats = [([x.data for x in p.upper_bounds], [x.data for x in p.temporal_strides], [x.data for x in p.spatial_strides])
                for p in region.stride_patterns.data]
        acc = ctx.get_acc("snax_gemmx")
        ops = acc.convert_to_acc_ops(region)
        return m, region, pats, acc, ops

    def fn():
        E = eng()
        m, region, pats, acc, ops = pipeline()
        f = irsym.module_funcs(m)[0]
        zpa, zpb = z3.BitVec("zpa", 32), z3.BitVec("zpb", 32)
        env = {f.body.blocks[0].args[3]: zpa, f.body.blocks[0].args[4]: zpb}
        ptrs = {}
        zero_ops = set()
        for k, o in enumerate(region.operands):
            from xdsl.dialects import arith

            if hasattr(o, "op") and isinstance(o.op, arith.ConstantOp):
                zero_ops.add(k)
            else:
                if o not in env:
                    env[o] = z3.BitVec(f"ptr{k}", 32)
                ptrs[k] = env[o]
        # constants defined in the function before the region
        I0 = irsym.Interp(W=32)
        for op in f.body.blocks[0].ops:
            if op.name == "arith.constant":
                I0.run_op(op)
                env[op.results[0]] = I0.get(op.results[0])
        vals, names, setup, launch, I = eval_setup(ops, env)
        exp = streamer_spec(acc, pats, ptrs, zero_ops)
        oblige_fields(E, acc, vals, names, exp, f"snax_gemmx {case}")
        A_steps = 1
        for b in pats[0][0]:
            A_steps *= b
        last = pats[2] if i8out else pats[-1]
        m_exp = 1
        for b, s in zip(last[0], last[1]):
            if s != 0:
                m_exp *= b
        g = lambda n: z3.BV2Int(vals[n], False)
        E.oblige("gemmx:K_times_M_equals_steps_of_A", g("K") * g("M") == A_steps, dict(steps=A_steps))
        E.oblige("gemmx:M_equals_output_steps", g("M") == m_exp, dict(expected=m_exp))
        E.oblige("gemmx:N_is_one", g("N") == 1)
        if qmac:
            E.oblige("gemmx:subtractions_packs_zero_points", vals["subtractions"] == (((zpb & 255) << 8) | (zpa & 255)))
        else:
            E.oblige("gemmx:subtractions_packs_zero_points", vals["subtractions"] == 0)
        E.oblige("gemmx:bypassSIMD", vals["bypassSIMD"] == (0 if i8out else 1))
        if i8out:
            csr0 = ((rp[3] & 255) << 24) | ((rp[2] & 255) << 16) | ((rp[1] & 255) << 8) | (rp[0] & 255)
            E.oblige("gemmx:csr0_packs_min_max_zpout_zpin", vals["csr0"] == csr0)
            # xdsl 0.70 normalises the i1 attribute `true` to -1: accept any non-zero encoding (environment drift)
            E.oblige("gemmx:csr1_double_round", vals["csr1"] != 0)
            sh = (38 << 24) | (38 << 16) | (38 << 8) | 38
            nsh = len([n for n in names if n.startswith("shift_")])
            for i in range(nsh):
                E.oblige("gemmx:shift_packing", vals[f"shift_{i}"] == sh)
            for i in range(acc.n):
                E.oblige("gemmx:mult", vals[f"mult_{i}"] == 1140768826)
            E.oblige("gemmx:temporal_loop_bound_equals_M", vals["temporal_loop_bound"] == vals["M"])
        E.oblige("launch:fields", z3.BoolVal(tuple(x.data for x in launch.param_names.data) == tuple(acc.launch_fields)))

    def replay(f):
        return replay_pinned(fn, f)

    return run_case(fn, replay, signature=lambda f, v: f["name"], sample=dict(case=str(case)), key=str(case), witness=False)


# ------------------------------------------------------------------ xdma with symbolic patterns


def case_xdma(case):
    from xdsl.dialects import arith, test
    from xdsl.dialects.builtin import IndexType
    from xdsl.ir import Block, Region

    from snaxc.accelerators.snax_xdma import SNAXXDMAAccelerator
    from snaxc.dialects import snax_stream

    desc, used_dims = case[:2]
    body = case[2] if len(case) > 2 else ("mul",)  # kernel of the region: decides which extension is active
    xzero = frozenset(case[3]) if len(case) > 3 else frozenset()  # operands whose pointer is the constant 0 (generated zeros)
    XBODY = {
        "mul": ("i16", "i16", "%r = kernel.mul %x, %x : i16, i16 -> i16"),
        "add": ("i32", "i32", "%r = kernel.add %x, %x : i32, i32 -> i32"),
        "add64": ("i32", "i64", "%r = kernel.add %x, %x : i32, i32 -> i64"),
        "rescale_down": ("i32", "i8", "%r = kernel.rescale %x {{input_zp = {0} : i32, output_zp = {1} : i32, multiplier = array<i32: {2}>, shift = array<i32: {3}>, max_int = 127 : i32, min_int = -128 : i32, double_round = false}} : (i32) -> i8"),
        "rescale_up": ("i8", "i32", "%r = kernel.rescale %x {{input_zp = {0} : i32, output_zp = {1} : i32, multiplier = array<i32: {2}>, shift = array<i32: {3}>, max_int = 127 : i32, min_int = -128 : i32, double_round = false}} : (i8) -> i32"),
        "rescale_same": ("i32", "i32", "%r = kernel.rescale %x {{input_zp = {0} : i32, output_zp = {1} : i32, multiplier = array<i32: {2}>, shift = array<i32: {3}>, max_int = 127 : i32, min_int = -128 : i32, double_round = false}} : (i32) -> i32"),
    }
    # independent table: option -> (number of parameter registers, kernel that activates it, its register values)
    rp = tuple(body[1:5]) if len(body) >= 5 else (0, 0, 0, 0)
    XEXT = {
        "add_ext": (1, "add", [2]), "add_ext_long": (1, None, None), "maxpool_ext": (1, None, None), "memset_ext": (1, None, None),
        "t": (1, None, None), "rescale_down_ext": (4, "rescale_down", [rp[0], rp[2], rp[1], rp[3]]),
        "rescale_up_ext": (4, "rescale_up", [rp[0], rp[2], rp[1], rp[3]]),
    }

    def build(get):
        acc = SNAXXDMAAccelerator() if desc is None else SNAXXDMAAccelerator(mk_config(desc, "xdma"))
        d = desc or [("r", "nnnnn", 1, ["c"]), ("w", "nnnnn", 1, ["c", "bm"])]
        real_desc = [(("r" if s.type.value == "r" else "w"), "".join(str(f.value) for f in s.temporal_dims), s.spatial_dim, []) for s in acc.streamer_config.data.streamers]
        pats = sym_patterns(real_desc, get, used_dims)
        from xdsl.dialects.builtin import ArrayAttr
        from xdsl.parser import Parser

        txt = """
func.func @f(%p0 : index, %p1 : index) {
  %zero = arith.constant 0 : index
  "snax_stream.streaming_region"(OPERAND0, OPERAND1) <{stride_patterns = [#snax_stream.stride_pattern<ub = [1], ts = [0], ss = [8]>, #snax_stream.stride_pattern<ub = [1], ts = [0], ss = [8]>], accelerator = "snax_xdma", operandSegmentSizes = array<i32: 1, 1>}> ({
  ^bb0(%s0 : !dart.stream<TI>, %s1 : !dart.stream<TO>):
    %g = "dart.generic"(%s0) <{library_call = "none"}> ({
    ^bb1(%x : TI, %y : TO):
      KERNEL
      dart.yield %r : TO
    }) : (!dart.stream<TI>) -> !dart.stream<TO>
    dart.yield %g : !dart.stream<TO>
  }) : (index, index) -> ()
  func.return
}
"""
        txt = txt.replace("OPERAND0", "%zero" if 0 in xzero else "%p0").replace("OPERAND1", "%zero" if 1 in xzero else "%p1")
        ti, to, kern = XBODY[body[0]]
        txt = txt.replace("KERNEL", kern.format(*rp) if "{" in kern else kern).replace("TI", ti).replace("TO", to)
        m = Parser(xshim.make_ctx(), txt).parse_module()
        op = [o for o in m.walk() if isinstance(o, snax_stream.StreamingRegionOp)][0]
        op.properties["stride_patterns"] = ArrayAttr([snax_stream.StridePattern(*p) for p in pats])

        class _S:  # the two pointer arguments of @f
            def __init__(self, v):
                self.res = [v]
        fargs = irsym.module_funcs(m)[0].body.blocks[0].args
        srcs = [_S(fargs[0]), _S(fargs[1])]
        ops = acc.convert_to_acc_ops(op)
        return acc, pats, srcs, ops

    def fn():
        E = eng()
        acc, pats, srcs, ops = build(getbv)
        ptrs = {k: z3.BitVec(f"ptr{k}", 32) for k in range(2)}
        vals, names, setup, launch, I = eval_setup(ops, {s.res[0]: ptrs[k] for k, s in enumerate(srcs)})
        exp = streamer_spec(acc, pats, ptrs, set(xzero), xdma=True)
        d = desc or [("r", "nnnnn", 1, ["c"]), ("w", "nnnnn", 1, ["c", "bm"])]
        for name, (_, _, _, opts) in zip(acc.streamer_names, d):
            # bit k of <s>_bypass belongs to the k-th extension of the streamer, the one whose parameter registers
            # are declared k-th after it; an extension is active iff the region's kernel is the one it implements
            bypass = 0
            for k, o in enumerate([o for o in opts if o in XEXT]):
                n, kern, vals_ = XEXT[o]
                active = kern is not None and kern == body[0]
                if active:
                    bypass |= 1 << k
                for i in range(n):
                    exp[f"{name}_{o}_{i}"] = z3.BitVecVal(vals_[i] if active else 0, 32)
            exp[f"{name}_bypass"] = z3.BitVecVal(bypass, 32)
        oblige_fields(E, acc, vals, names, exp, "snax_xdma")
        E.oblige("launch:fields", z3.BoolVal(tuple(x.data for x in launch.param_names.data) == tuple(acc.launch_fields)))

    def replay(f):
        return replay_pinned(fn, f)

    def sig(f, v):
        s = f["name"]
        if desc is not None and s.startswith("fields:") and any("c" not in opts for (_, _, _, opts) in desc):
            s += "|streamer_without_channel_mask"
        return s

    return run_case(fn, replay, signature=sig, sample=dict(config=str(desc), used_dims=used_dims, kernel=str(body), zero_pointer_operands=sorted(xzero)), key=str(case), max_paths=2000, witness=True)


# ------------------------------------------------------------------ hwpe_mult (linalg path)


def case_hwpe(case):
    from xdsl.dialects import builtin, linalg, test
    from xdsl.dialects.builtin import MemRefType, i32
    from xdsl.ir import Block, Region
    from xdsl.ir.affine import AffineMap

    from snaxc.accelerators.snax_hwpe_mult import SNAXHWPEMultAccelerator

    def fn():
        E = eng()
        acc = SNAXHWPEMultAccelerator()
        mt = MemRefType(i32, [-1])
        srcs = [test.TestOp(result_types=[mt]) for _ in range(3)]
        b = Block(arg_types=[i32, i32, i32])
        from xdsl.dialects import arith

        mul = arith.MuliOp(b.args[0], b.args[1])
        b.add_ops([mul, linalg.YieldOp(mul)])
        m = builtin.AffineMapAttr(AffineMap.identity(1))
        g = linalg.GenericOp([srcs[0].res[0], srcs[1].res[0]], [srcs[2].res[0]], Region(b), [m] * 3, [linalg.IteratorTypeAttr.parallel()],
                             library_call=builtin.StringAttr("snax_hwpe_mult"))
        ops = acc.convert_to_acc_ops(g)
        env = {s.res[0]: Opaque("memref", k=k) for k, s in enumerate(srcs)}
        vals, names, setup, launch, I = eval_setup(ops, env)
        E.oblige("fields:one_value_per_declared_field_in_order", z3.BoolVal(tuple(names) == tuple(acc.fields)))
        # by NAME: vector_length is the dynamic size of the vectors, nr_iters and mode are 1
        dim = [v for k, v in I.shared.items() if k[0] == ("dim",)]
        E.oblige("hwpe:vector_length_is_memref_size", z3.BoolVal(bool(dim)) if not dim else vals["vector_length"] == dim[0], dict(field="vector_length"))
        E.oblige("hwpe:nr_iters_is_one", vals["nr_iters"] == 1, dict(field="nr_iters"))
        E.oblige("hwpe:mode_is_one", vals["mode"] == 1)

    def replay(f):
        return replay_pinned(fn, f)

    return run_case(fn, replay, signature=lambda f, v: f["name"], sample=dict(acc="snax_hwpe_mult"), key="hwpe")


# ------------------------------------------------------------------ driver


def run(chk):
    from .. import runner

    quick = chk.tier == "quick"
    if quick:
        runner.CASE_TIMEOUT_S = min(runner.CASE_TIMEOUT_S, 40)
    only = getattr(chk, "only", None)
    rnd = random.Random(chk.seed)
    chk.functions = ["snaxc.accelerators.snax.SNAXStreamer._generate_streamer_setup_vals / get_streamer_setup_fields",
                     "snaxc.accelerators.snax_alu.SNAXAluAccelerator.convert_to_acc_ops", "snaxc.accelerators.snax_gemmx.SNAXGEMMXAccelerator._generate_setup_vals (through the real dart pipeline)",
                     "snaxc.accelerators.snax_xdma.SNAXXDMAAccelerator._generate_stream_setup_vals / get_xdma_streamer_setup_fields",
                     "snaxc.accelerators.snax_hwpe_mult.SNAXHWPEMultAccelerator._generate_setup_vals", "snaxc.util.pack_bitlist (emitted IR evaluated)"]
    chk.explanation = (
        "For enumerated streamer configurations a snax_stream.streaming_region whose stride-pattern entries are symbolic int "
        "proxies is handed to the real convert_to_acc_ops; the emitted value-computing ops are evaluated by the symbolic IR "
        "interpreter, giving one z3 term per accfg.setup operand; names come from SetupOp.iter_params. z3 proves per field "
        "NAME that the term equals the specification (pointer / zero address, padded bounds with reuse collapse, padded "
        "strides, masks, broadcast flag, transpose bypass) for all pattern values, that the setup lists exactly the declared "
        "fields in order, and that loop counts equal the number of stream steps. gemmx is driven through the real "
        "scheduler/layout/stream pipeline on enumerated shapes with symbolic zero points (packing identities over "
        "bit-vectors). hwpe_mult is checked by name on its linalg path.")
    chk.assumptions = ["pattern entries in [0, 2^31); irrelevant temporal dims carry stride 0 (the generator asserts it)",
                       "gemmx stride patterns are concrete (they come from the pipeline on enumerated shapes); zero points symbolic i32",
                       "xdma with an empty region body (no extension active): bypass and extension CSRs must be 0"]
    # alu configs
    cases = [([("r", "n", 1, []), ("r", "n", 1, []), ("w", "n", 1, [])], (1, 1, 1), frozenset()),
             ([("r", "n", 1, []), ("r", "n", 1, []), ("w", "n", 1, [])], (1, 1, 1), frozenset([1]))]
    optsets = [[], ["b"], ["c"], ["a"], ["t"], ["b", "t"], ["a", "c"], ["b", "c", "t"]]
    ncfg = 36 if quick else 400
    while len(cases) < ncfg + 2:
        ns = rnd.randint(2, 4)
        desc = []
        for k in range(ns):
            nt = rnd.randint(1, 3 if quick else 6)
            desc.append(("w" if k == ns - 1 else "r", "".join(rnd.choice("nnir") for _ in range(nt)), rnd.randint(1, 2), rnd.choice(optsets)))
        # estimated paths: 3 outcomes per reuse dim, 2 per spatial stride (`stride == 0 and ...` forks on every one)
        est = 3 ** sum(d[1].count("r") for d in desc) * 2 ** sum(d[2] for d in desc)
        if est > (100 if quick else 1200):
            continue
        used = tuple(rnd.randint(0 if len(d[1]) > 1 else 1, len(d[1])) for d in desc)
        used = (max(1, used[0]),) + used[1:]
        zero = frozenset([rnd.randrange(ns - 1)]) if rnd.random() < 0.25 else frozenset()
        argptr = frozenset(k for k in range(ns) if k not in zero and rnd.random() < 0.4)
        cases.append((desc, used, zero, argptr))
    # patterns with more loops than their own streamer (but not more than another streamer of the configuration): the
    # verifier has to refuse them, since the setup has no registers for the extra loops
    for first, other in ((3, 1), (4, 2), (2, 1), (1, 2)):
        desc = [("r", "n" * first, 1, []), ("r", "n" * other, 1, []), ("w", "n" * other, 1, [])]
        big = max(first, other)
        cases.append((desc, (min(first, big), big, other), frozenset(), frozenset()))
        cases.append((desc, (first, other, big), frozenset(), frozenset()))
    if only in (None, "alu"):
        chk.add_results("snax_alu_generic_streamers", pmap(case_alu, cases, chunks=2))
    gcases = [(16, 16, 16, False, True), (16, 16, 16, True, True), (8, 8, 8, False, False), (16, 24, 8, True, True), (32, 8, 16, False, True),
              (16, 16, 8, True, False)]
    # rescale parameters: negative and extreme zero points / clamp bounds (every byte field of csr0 keeps to its byte)
    for rp in ((-5, 9, 127, -128), (-128, 127, 100, -100), (0, 0, 0, 0), (127, -128, -1, -2)):
        gcases.append((16, 16, 16, True, rnd.random() < 0.5, rp))
    # D8 = rescale(A*B + C): the rescale is the third generic of the fused body
    gcases += [(16, 16, 16, True, True, (23, -23, 100, -100), True), (8, 16, 8, True, True, (3, -4, 127, -128), True)]
    if not quick:
        gcases += [(a, b, c, o, q) for a in (8, 24) for b in (8, 32) for c in (8, 16, 64) for o in (False, True) for q in (False, True)]
    if only in (None, "gemmx"):
        chk.add_results("snax_gemmx_pipeline", pmap(case_gemmx, gcases))
    xcases = [(None, (u, v)) for u in (1, 3, 5) for v in (1, 2, 5)]
    for _ in range(10 if quick else 60):
        desc = [("r", "n" * rnd.randint(1, 5), 1, rnd.choice([["c"], [], ["c", "maxpool_ext"], ["c", "add_ext"]])),
                ("w", "n" * rnd.randint(1, 5), 1, rnd.choice([["c", "bm"], ["c"], ["bm"], ["c", "t"], ["c", "memset_ext"]]))]
        xcases.append((desc, (rnd.randint(1, len(desc[0][1])), rnd.randint(1, len(desc[1][1])))))
    # a reader / writer whose pointer is the constant 0: its own masks are 0, the other streamer's are not
    for z_ in ((0,), (1,), (0, 1)):
        xcases.append((None, (2, 2), ("mul",), z_))
        xcases.append(([("r", "nn", 1, ["c", "bm"]), ("w", "nn", 1, ["c", "bm"])], (1, 2), ("mul",), z_))
    # regions whose kernel one of the streamer's extensions implements (rescale up / down, add), extensions listed
    # before, between and after mask options; near-miss kernels (same operands, other result type) activate nothing
    xbodies = [("mul",), ("add",), ("add64",), ("rescale_down", 7, -3, 1234567, 9), ("rescale_up", -11, 5, 99, 3),
               ("rescale_same", 1, 2, 3, 4), ("rescale_down", -128, 127, 2 ** 30, 40)]
    xopts_r = [["c", "add_ext", "rescale_down_ext", "rescale_up_ext"], ["rescale_up_ext", "c", "rescale_down_ext"],
               ["c", "bm", "rescale_down_ext", "add_ext"], ["add_ext_long", "rescale_up_ext", "c", "add_ext"], ["c", "rescale_down_ext"],
               ["maxpool_ext", "c", "bm", "rescale_up_ext", "rescale_down_ext"]]
    xopts_w = [["c", "bm", "t"], ["c", "rescale_down_ext", "bm"], ["bm", "c", "memset_ext", "rescale_up_ext"], ["c"], ["t", "c", "add_ext"]]
    for k in range(24 if quick else 200):
        desc = [("r", "n" * rnd.randint(1, 4), 1, xopts_r[k % len(xopts_r)]), ("w", "n" * rnd.randint(1, 4), 1, rnd.choice(xopts_w))]
        act = {"add_ext": "add", "rescale_down_ext": "rescale_down", "rescale_up_ext": "rescale_up"}
        hit = [b for b in xbodies if b[0] in {act.get(o) for o in desc[0][3] + desc[1][3]}]
        body = rnd.choice(hit) if hit and rnd.random() < 0.7 else rnd.choice(xbodies)
        xcases.append((desc, (rnd.randint(1, len(desc[0][1])), rnd.randint(1, len(desc[1][1]))), body))
    if only in (None, "xdma"):
        chk.add_results("snax_xdma", pmap(case_xdma, xcases, chunks=2))
    if only in (None, "hwpe"):
        chk.add_results("snax_hwpe_mult", pmap(case_hwpe, [0]))
    if only in (None, "phs"):
        # snax_phs: the values written to phs_switch_<i> configure switch i of the element so that it computes the kernel
        # (the functional check of C20 on a fixed set of three-kernel histories, where muxes precede two-way chooses)
        from .c20 import case_history

        fixed = [("mul", "sq_plus_b", "add_mul"), ("sub_mul_b", "three_chain", "three"), ("add", "mul_sub", "add_mul"), ("sub", "rsub", "sub_mul_b", "mul_add_r")]
        hist = [tuple(p) for f in fixed for p in itertools.permutations(f)][:: (2 if quick else 1)]
        chk.add_results("snax_phs_switch_values", pmap(case_history, [(h, False) for h in hist], chunks=4))
    chk.bounds = dict(alu_configs=len(cases), gemmx_shapes=len(gcases), xdma_cases=len(xcases))
    chk.outside = ["snax_phs switch values beyond the fixed histories of the snax_phs section (C20 covers the rest)", "gemmx with symbolic stride patterns (symbolic division)",
                   "xdma extensions whose kernel is not selected yet in the source (maxpool, memset, transpose: never active)"]
