"""C04 - CSR lowering writes every field to its declared register."""

from __future__ import annotations

import itertools
import random
import re

import z3

from .. import accfg_common as ac
from .. import irsym, sym, xshim
from ..harness import mval, replay_pinned, run_case
from ..irsym import Opaque
from ..runner import pmap
from ..sym import SymInt, eng

LEVEL = "translation_validation"


# ------------------------------------------------------------------ test accelerators built from the REAL lowering classes


def make_ctx():
    """context with three extra registered accelerators whose lowering code is the repository's own base classes."""
    from snaxc.accelerators.rocc import RoCCAccelerator
    from snaxc.accelerators.snax import SNAXAccelerator, SNAXPollingBarrier, SNAXPollingBarrier3, SNAXPollingBarrier4

    ctx = xshim.make_ctx()

    def mk(name, bases):
        def convert_to_acc_ops(self, op):
            return []

        def generate_acc_op(self):
            raise NotImplementedError

        return type(name, bases, dict(name=name, convert_to_acc_ops=convert_to_acc_ops, generate_acc_op=generate_acc_op))

    A1 = mk("acc1", (SNAXAccelerator, SNAXPollingBarrier))
    A2 = mk("acc2", (SNAXAccelerator, SNAXPollingBarrier4))
    R1 = mk("rocc1", (RoCCAccelerator,))
    for n, c in (("acc1", A1), ("acc2", A2), ("rocc1", R1)):
        try:
            ctx.register_accelerator(n, c)
        except ValueError:
            pass
    return ctx


AWAIT_STYLE = {"acc1": "poll_then_clear", "acc2": "write_launch_zero_twice", "rocc1": "none"}


def build(src, pipeline):
    from xdsl.parser import Parser

    from snaxc.transforms.accfg_config_overlap import AccfgConfigOverlapPass
    from snaxc.transforms.accfg_dedup import AccfgDeduplicate
    from snaxc.transforms.convert_accfg_to_csr import ConvertAccfgToCsrPass
    from snaxc.transforms.convert_linalg_to_accfg import TraceStatesPass
    import contextlib
    import io

    ctx = make_ctx()
    m1 = Parser(ctx, src).parse_module()
    TraceStatesPass().apply(ctx, m1)
    if "dedup" in pipeline:
        AccfgDeduplicate().apply(ctx, m1)
    if "overlap" in pipeline:
        with contextlib.redirect_stderr(io.StringIO()):
            AccfgConfigOverlapPass().apply(ctx, m1)
    m2 = m1.clone()
    ConvertAccfgToCsrPass().apply(ctx, m2)
    return m1, m2


def acc_decls(module):
    from snaxc.dialects import accfg

    out = {}
    for op in module.walk():
        if isinstance(op, accfg.AcceleratorOp):
            out[op.name_prop.string_value()] = dict(
                fields=[(k, v.value.data) for k, v in op.field_items()],
                launch=[(k, v.value.data) for k, v in op.launch_field_items()],
                barrier=op.barrier.value.data,
            )
    return out


# ------------------------------------------------------------------ the two machines


def abstract_handlers(I):
    def h_setup(I, op):
        if op.in_state is not None:
            I.get(op.in_state)
        I.emit("setup", op.accelerator.data, tuple((n, I.get(v)) for n, v in op.iter_params()),
               "no_in_state" if op.in_state is None else type(op.in_state.owner).__name__)
        I.set(op.out_state, Opaque("state"))

    def h_launch(I, op):
        I.get(op.state)
        I.emit("launch", op.accelerator.data, tuple((n, I.get(v)) for n, v in op.iter_params()))
        I.set(op.token, Opaque("token", acc=op.accelerator.data))

    def h_await(I, op):
        I.emit("await", I.get(op.token).acc)

    def h_call(I, op):
        I.emit("call", op.callee.root_reference.data)

    return {"accfg.setup": h_setup, "accfg.launch": h_launch, "accfg.await": h_await, "func.call": h_call,
            "llvm.call": h_call, "accfg.accelerator": lambda I, op: None}


RE_ROCC = re.compile(r"\.insn r CUSTOM_(\d+), 0x3, (\d+) ,x0, \$0, \$1")


def concrete_handlers(I):
    def h_asm(I, op):
        s = op.asm_string.data
        vals = [I.get(o) for o in op.operands]
        if s == "csrw $0, $1":
            I.emit("write", vals[0], vals[1])
        elif s == "csrr $0, $1":
            I.emit("read", vals[0])
            st = I.fresh_for(("csr_status",), op.res.type)
            n = I.state.get("status_reads", 0)
            I.state["status_reads"] = n + 1
            if n >= 3:
                # bound on forking: after three status reads on a path the accelerator answers "done" at once
                eng().assume(st == 0)
                eng().stats.unwinding_assumptions += 1
            I.set(op.res, st)
        elif s == "nop":
            pass
        elif (m := RE_ROCC.match(s)):
            I.emit("issue", int(m.group(2)), vals[0], vals[1])
        else:
            raise irsym.InterpError(f"unknown inline asm {s!r}")

    def h_call(I, op):
        I.emit("call", op.callee.root_reference.data)

    return {"llvm.inline_asm": h_asm, "func.call": h_call, "llvm.call": h_call}


def to32(v):
    if z3.is_bv(v) and v.size() != 32:
        return z3.Extract(31, 0, v) if v.size() > 32 else z3.ZeroExt(32 - v.size(), v)
    return v


def expected_trace(events, decls):
    """expansion of the abstract events into the CSR-level events the property prescribes."""
    out = []
    regs = {}
    for e in events:
        if e[0] == "setup":
            acc, params = e[1], e[2]
            d = decls[acc]
            if AWAIT_STYLE.get(acc) == "none":  # instruction-configured
                r = regs.setdefault(acc, {})
                names = [n for n, _ in params]
                for n, v in params:
                    r[n] = v
                insns = {n[:-4] for n in names}
                for fname, f7 in d["fields"]:
                    if fname.endswith(".rs1") and fname[:-4] in insns:
                        i = fname[:-4]
                        missing = [x for x in (i + ".rs1", i + ".rs2") if x not in names]
                        out.append(("issue", f7, r.get(i + ".rs1"), r.get(i + ".rs2"),
                                    dict(in_state=e[3], partner_not_in_setup=missing)))
            else:
                fm = dict(d["fields"])
                for n, v in params:
                    out.append(("write", fm[n], v))
        elif e[0] == "launch":
            acc, params = e[1], e[2]
            d = decls[acc]
            if AWAIT_STYLE.get(acc) == "none":
                pv = dict(params)
                for fname, f7 in d["launch"]:
                    if fname.endswith(".rs1"):
                        out.append(("issue", f7, pv[fname], pv[fname[:-4] + ".rs2"]))
            else:
                lm = dict(d["launch"])
                for n, v in params:
                    out.append(("write", lm[n], v))
        elif e[0] == "await":
            acc = e[1]
            d = decls[acc]
            st = AWAIT_STYLE[acc]
            if st == "poll_then_clear":
                out.append(("poll", d["barrier"]))
                out.append(("write", 965, 0))
            elif st == "poll":
                out.append(("poll", d["barrier"]))
            elif st == "write_launch_zero_twice":
                for _, a in d["launch"]:
                    out.append(("write", a, 0))
                    out.append(("write", a, 0))
        elif e[0] == "call":
            out.append(("call", e[1]))
    return out


def normalise_concrete(events):
    out = []
    for e in events:
        if e[0] == "read":
            a = irsym.bvval(e[1])
            if out and out[-1] == ("poll", a):
                continue
            out.append(("poll", a))
        elif e[0] == "write":
            out.append(("write", irsym.bvval(e[1]), e[2]))
        elif e[0] in ("issue", "call"):
            out.append(e)
    return out


def compare(m1, m2, K, W):
    from snaxc.dialects import accfg

    E = eng()
    # no accfg op / state-typed value may survive
    left = [op.name for op in m2.walk() if op.name.startswith("accfg.")]
    E.oblige("lowering:no_accfg_ops_left", z3.BoolVal(not left), dict(left=left[:5]))
    leftv = []
    for op in m2.walk():
        for v in list(op.results) + [a for r in op.regions for b in r.blocks for a in b.args]:
            if isinstance(v.type, (accfg.StateType, accfg.TokenType)):
                leftv.append(op.name)
    E.oblige("lowering:no_state_values_left", z3.BoolVal(not leftv), dict(left=leftv[:5]))
    if left or leftv:
        return
    decls = acc_decls(m1)
    args = ac.std_args(W)
    shared = {}
    I1 = irsym.Interp(W=W, K=K, shared=shared)
    I1.handlers.update(abstract_handlers(I1))
    f1 = [f for f in irsym.module_funcs(m1) if f.sym_name.data == "f"][0]
    I1.run_func(f1, args)
    I2 = irsym.Interp(W=W, K=K, shared=shared)
    I2.handlers.update(concrete_handlers(I2))
    f2 = [f for f in irsym.module_funcs(m2) if f.sym_name.data == "f"][0]
    try:
        I2.run_func(f2, args)
    except irsym.Undefined as e:
        E.oblige("ssa:use_before_def", False, dict(error=str(e)[:200]))
        return
    exp = expected_trace(I1.events, decls)
    got = normalise_concrete(I2.events)
    ke = [(e[0], e[1]) for e in exp]
    kg = [(e[0], e[1]) for e in got]
    exp = [e if e[0] != "issue" else e for e in exp]
    if ke != kg:
        E.oblige("csr:event_sequence", False, dict(expected=[str(x) for x in ke[:24]], got=[str(x) for x in kg[:24]]))
        return
    for i, (a, b) in enumerate(zip(exp, got)):
        if a[0] == "write":
            va = a[2] if not isinstance(a[2], int) else z3.BitVecVal(a[2], to32(b[2]).size() if z3.is_bv(b[2]) else 32)
            vb = b[2]
            if z3.is_bv(va) and z3.is_bv(vb) and va.size() != vb.size():
                # index values are cast to i32; small immediates (i5 launch values) stay narrow
                va, vb = to32(va), to32(vb)
            E.oblige("csr:write_value", irsym.term_eq(va, vb), dict(event=i, addr=a[1]))
        elif a[0] == "issue":
            for k, nm in ((2, "rs1"), (3, "rs2")):
                va = a[k] if a[k] is not None else z3.BitVecVal(0, b[k].size())
                vb = b[k]
                if z3.is_bv(va) and z3.is_bv(vb) and va.size() != vb.size():
                    va, vb = to32(va), to32(vb)
                info = dict(event=i, funct7=a[1])
                name = f"rocc:{nm}_in_effect"
                if len(a) > 4:
                    info.update(a[4])
                    if a[4]["in_state"] == "no_in_state" and any(x.endswith(nm) for x in a[4]["partner_not_in_setup"]):
                        # the compiler has no state to look the partner up in and materialises 0
                        name = f"rocc:{nm}_default0_when_state_unknown"
                E.oblige(name, irsym.term_eq(va, vb), info)
    E.oblige("explored", True)


def case_prog(case, K=2, W=32):
    prog, pipeline = case
    src = ac.render(prog)
    try:
        m1, m2 = build(src, pipeline)
    except Exception as e:
        return dict(rejected=f"{type(e).__name__}: {str(e)[:80]}", case=str(prog)[:300])

    def fn():
        compare(m1, m2, K, W)

    def replay(f):
        def again():
            a, b = build(src, pipeline)
            compare(a, b, max(K, 3), W)
        ok, d = replay_pinned(again, f)
        d["program"] = src
        return ok, d

    return run_case(fn, replay, signature=lambda f, v: f["name"], sample=dict(program=str(prog), pipeline=pipeline),
                    key=str(case), max_paths=600)


# ------------------------------------------------------------------ (b) register maps


def streamer_configs(rnd, n, systype="reg"):
    from snaxc.accelerators.streamers.extensions import STREAMER_OPT_MAP
    from snaxc.accelerators.streamers.streamers import Streamer, StreamerConfiguration, StreamerSystemType, StreamerType

    out = []
    optnames = sorted(STREAMER_OPT_MAP)
    for _ in range(n):
        ns = rnd.randint(1, 5)
        ss = []
        desc = []
        for i in range(ns):
            t = rnd.choice(["r", "w"])
            temp = [rnd.choice(["n", "n", "i", "r"]) for _ in range(rnd.randint(1, 6))]
            spat = [8] * rnd.randint(1, 2)
            opts = rnd.sample(optnames, rnd.randint(0, 3))
            ss.append(Streamer(StreamerType(t), temp, spat, [STREAMER_OPT_MAP[o]() for o in opts]))
            desc.append((t, "".join(temp), len(spat), opts))
        out.append((StreamerConfiguration(ss, StreamerSystemType(systype)), desc))
    return out


def check_map(op, acc, E, where):
    fields = [(k, sym.zint(v.value.data)) for k, v in op.field_items()]
    launch = [(k, sym.zint(v.value.data)) for k, v in op.launch_field_items()]
    barrier = sym.zint(op.barrier.value.data)
    E.oblige("map:field_names", z3.BoolVal(tuple(k for k, _ in fields) == tuple(acc.fields)),
             dict(decl=[k for k, _ in fields][:40], fields=list(acc.fields)[:40]))
    E.oblige("map:launch_field_names", z3.BoolVal(tuple(k for k, _ in launch) == tuple(acc.launch_fields)))
    regs = [("field:" + k, a) for k, a in fields] + [("launch:" + k, a) for k, a in launch] + [("barrier", barrier)]
    # reserved status registers: busy + performance counter directly behind the streamer launch registers
    sl = [a for k, a in launch if k in getattr(acc, "streamer_launch_fields", ())]
    if sl:
        last = sl[-1]
        regs += [("reserved:busy", last + 1), ("reserved:perf_counter", last + 2)]
    for (n1, a1), (n2, a2) in itertools.combinations(regs, 2):
        if n1.startswith("reserved") and n2.startswith("reserved"):
            continue
        E.oblige("map:injective", a1 != a2, dict(a=n1, b=n2, where=where))
    for n1, a1 in regs:
        E.oblige("map:twelve_bit_csr_address", z3.And(a1 >= 0, a1 < 4096), dict(a=n1, where=where))


def case_map(case):
    kind = case[0]

    def fn():
        E = eng()
        if kind == "gemmx":
            from snaxc.accelerators.snax_gemmx import SNAXGEMMXAccelerator

            _, m, n, k = case
            acc = SNAXGEMMXAccelerator(m=m, n=n, k=k)
            check_map(acc.generate_acc_op(), acc, E, f"gemmx m={m} n={n} k={k}")
        elif kind == "alu":
            from snaxc.accelerators.snax_alu import SNAXAluAccelerator

            cfg = case[1]
            acc = SNAXAluAccelerator(cfg) if cfg is not None else SNAXAluAccelerator()
            check_map(acc.generate_acc_op(), acc, E, "alu " + str(case[2]))
        elif kind == "gemmx_cfg":
            from snaxc.accelerators.snax_gemmx import SNAXGEMMXAccelerator

            acc = SNAXGEMMXAccelerator(case[1])
            check_map(acc.generate_acc_op(), acc, E, "gemmx " + str(case[2]))
        elif kind == "xdma":
            from snaxc.accelerators.snax_xdma import SNAXXDMAAccelerator

            acc = SNAXXDMAAccelerator() if case[1] is None else SNAXXDMAAccelerator(case[1])
            acc.max_multicast_dest = sym.sym("multicast", 1, 256)  # symbolic hole
            check_map(acc.generate_acc_op(), acc, E, "xdma " + str(case[2]))
        elif kind == "hwpe":
            from snaxc.accelerators.snax_hwpe_mult import SNAXHWPEMultAccelerator

            acc = SNAXHWPEMultAccelerator()
            check_map(acc.generate_acc_op(), acc, E, "hwpe")
        elif kind == "gemmini":
            from snaxc.accelerators.gemmini import GemminiAccelerator

            acc = GemminiAccelerator()
            op = acc.generate_acc_op()
            # RoCC: rs1/rs2 of one instruction share the funct7; distinct instructions must not
            insn = {}
            for k, v in list(op.field_items()) + list(op.launch_field_items()):
                insn.setdefault(k[:-4], set()).add(v.value.data)
            E.oblige("map:rocc_pair_same_funct7", z3.BoolVal(all(len(s) == 1 for s in insn.values())))
            codes = [next(iter(s)) for s in insn.values()]
            E.oblige("map:injective", z3.BoolVal(len(set(codes)) == len(codes)))
            E.oblige("map:field_names", z3.BoolVal(tuple(k for k, _ in op.field_items()) == tuple(acc.fields)))
        elif kind == "phs":
            from snaxc.accelerators.snax_phs import SNAXPHSAccelerator

            pe, spec = phs_pe(case[1])
            acc = SNAXPHSAccelerator(pe, spec)
            check_map(acc.generate_acc_op(), acc, E, f"phs switches={case[1]}")
            E.oblige("map:phs_switch_count", z3.BoolVal(len(acc.phs_switch_fields) == pe.get_true_switches()))

    def replay(f):
        # the maps are concrete except the multicast size: re-run pinned
        return replay_pinned(fn, f)

    return run_case(fn, replay, signature=lambda f, v: f["name"], sample=dict(case=str(case)[:200]), key=str(case)[:300], witness=True)


def case_gemmx_channels(case):
    """SNAXGEMMXAccelerator.lower_acc_launch, branch for per-channel rescale parameters (launch carries mult_vals /
    shift_vals / m): the lowered CSR writes are executed on a register file; at every write to launch_gemmx the shift
    and multiplier registers must hold the values of that group of n channels (4 shifts per register, channel j in
    byte j mod 4), M and temporal_loop_bound hold m // groups, the streamer is launched once."""
    from xdsl.dialects import arith, builtin
    from xdsl.dialects.builtin import DenseArrayBase, IntegerAttr, i32

    from snaxc.accelerators.snax_gemmx import SNAXGEMMXAccelerator
    from snaxc.dialects import accfg

    n, groups, seed = case

    def fn():
        E = eng()
        rnd = random.Random(seed)
        acc = SNAXGEMMXAccelerator(m=8, n=n, k=8)
        aop = acc.generate_acc_op()
        # the module's declaration may place the status register elsewhere than the default one does
        declared_barrier = 0x522 + seed % 3
        aop.properties["barrier"] = IntegerAttr(declared_barrier, i32)
        mults = [rnd.randrange(1, 1 << 30) for _ in range(n * groups)]
        shifts = [rnd.randrange(1, 60) for _ in range(n * groups)]
        m_total = groups * rnd.choice([1, 2, 3])
        lg, ls = arith.ConstantOp(IntegerAttr(1, 32)), arith.ConstantOp(IntegerAttr(1, 32))
        st = accfg.SetupOp([], [], "snax_gemmx")
        launch = accfg.LaunchOp([lg, ls], ["launch_gemmx", "launch_streamer"], st)
        launch.attributes["mult_vals"] = DenseArrayBase.from_list(i32, mults)
        launch.attributes["shift_vals"] = DenseArrayBase.from_list(i32, shifts)
        launch.attributes["m"] = IntegerAttr(m_total, 32)
        ops = list(acc.lower_acc_launch(launch, aop))
        I = irsym.Interp(W=32)
        I.handlers.update(concrete_handlers(I))
        # the two launch fields carry unrelated run-time values: each register must receive its own
        lgv, lsv = z3.BitVec("launch_gemmx_value", 32), z3.BitVec("launch_streamer_value", 32)
        I.set(lg.result, lgv)
        I.set(ls.result, lsv)
        I.state["status_reads"] = 3  # the accelerator answers 'done' at the first poll
        for op in ops:
            I.run_op(op)
        fmap = {k: v.value.data for k, v in aop.field_items()}
        lmap = {k: v.value.data for k, v in aop.launch_field_items()}
        regs, group, streamer_launches = {}, 0, 0
        val = lambda v: z3.simplify(v).as_long() if z3.is_expr(v) else int(v)
        for e in I.events:
            if e[0] != "write":
                continue
            a = val(e[1])
            if a == lmap["launch_streamer"]:
                streamer_launches += 1
                E.oblige("channels:launch_register_receives_the_value_of_its_own_field", e[2] == lsv, dict(register="launch_streamer"))
                continue
            if a == lmap["launch_gemmx"]:
                E.oblige("channels:launch_register_receives_the_value_of_its_own_field", e[2] == lgv, dict(register="launch_gemmx", group=group))
            v = None if a == lmap["launch_gemmx"] else val(e[2])
            if a == lmap["launch_gemmx"]:
                info = dict(group=group, n=n, groups=groups)
                exp_m = m_total // groups
                E.oblige("channels:M_and_loop_bound_per_group", regs.get(fmap["M"]) == exp_m and regs.get(fmap["temporal_loop_bound"]) == exp_m,
                         dict(M=regs.get(fmap["M"]), expected=exp_m, **info))
                for j in range(n):
                    E.oblige("channels:multiplier_register_holds_the_channel_of_this_group", regs.get(fmap[f"mult_{j}"]) == mults[group * n + j],
                             dict(channel=j, **info))
                for r in range((n + 3) // 4):
                    sh = shifts[group * n + 4 * r: group * n + 4 * r + 4]
                    packed = sum((x & 255) << (8 * b) for b, x in enumerate(sh))
                    E.oblige("channels:shift_register_holds_the_channels_of_this_group", regs.get(fmap[f"shift_{r}"]) == packed,
                             dict(register=r, got=regs.get(fmap[f"shift_{r}"]), expected=packed, **info))
                group += 1
            else:
                regs[a] = v
        polled = sorted({val(e[1]) for e in I.events if e[0] == "read"})
        E.oblige("channels:every_wait_polls_the_declared_status_register", polled == [declared_barrier], dict(polled=[hex(a) for a in polled], declared=hex(declared_barrier)))
        E.oblige("channels:one_accelerator_launch_per_group", group == groups, dict(launches=group, groups=groups))
        E.oblige("channels:streamer_launched_once", streamer_launches == 1, dict(launches=streamer_launches))
        E.oblige("explored", True)

    return run_case(fn, lambda f: replay_pinned(fn, f), signature=lambda f, v: f["name"], sample=dict(case=str(case)), key=str(case))


def phs_pe(nswitch):
    """a PE with `nswitch` true switches built by merging kernels through the real combine API."""
    from xdsl.dialects import arith, builtin, linalg
    from xdsl.dialects.builtin import i32
    from xdsl.ir import Block, Region
    from xdsl.ir.affine import AffineMap

    from snaxc.phs.combine import append_to_abstract_graph
    from snaxc.phs.encode import convert_generic_body_to_phs
    from snaxc.phs.template_spec import TemplateSpec

    ops = [arith.AddiOp, arith.MuliOp, arith.SubiOp, arith.AndIOp, arith.OrIOp, arith.XOrIOp]

    def body(cls, swap):
        b = Block(arg_types=[i32, i32, i32])
        o = cls(b.args[1], b.args[0]) if swap else cls(b.args[0], b.args[1])
        b.add_ops([o, linalg.YieldOp(o.result)])
        return b

    def generic(cls, swap):
        from xdsl.dialects import test

        mt = builtin.MemRefType(i32, [16])
        srcs = [test.TestOp(result_types=[mt]) for _ in range(3)]
        m = AffineMap.identity(1)
        g = linalg.GenericOp([srcs[0].res[0], srcs[1].res[0]], [srcs[2].res[0]], Region(body(cls, swap)),
                             [builtin.AffineMapAttr(m)] * 3, [linalg.IteratorTypeAttr.parallel()])
        builtin.ModuleOp([*srcs, g])  # the rewriter wants an op that lives in a block
        return g

    from xdsl.pattern_rewriter import PatternRewriter

    g0 = generic(ops[0], False)
    pe = convert_generic_body_to_phs(g0, "acc_phs", PatternRewriter(g0))
    k = 1
    while pe.get_true_switches() < nswitch and k < 12:
        g = generic(ops[k % len(ops)], k >= len(ops))
        nxt = convert_generic_body_to_phs(g, "acc_phs", PatternRewriter(g))
        append_to_abstract_graph(nxt, pe)
        k += 1
    m = AffineMap.identity(1)
    spec = TemplateSpec((m, m), (m,), (4,))
    return pe, spec


def run(chk):
    from .. import runner as _runner

    _runner.CASE_TIMEOUT_S = min(_runner.CASE_TIMEOUT_S, 30)  # a pass that does not terminate on an input is a rejected input
    quick = chk.tier == "quick"
    only = getattr(chk, "only", None)
    rnd = random.Random(chk.seed)
    K = 2
    chk.functions = ["snaxc.transforms.convert_accfg_to_csr.ConvertAccfgToCsrPass (LowerAccfg{Setup,Launch,Await}ToCsr, DeleteAllStates)",
                     "snaxc.accelerators.snax.SNAXAccelerator.lower_acc_setup/lower_acc_launch, SNAXPollingBarrier{,3,4}.lower_acc_await",
                     "snaxc.accelerators.rocc.RoCCAccelerator.lower_acc_setup/lower_acc_launch/create_pairs",
                     "generate_acc_op of snax_gemmx/snax_alu/snax_xdma/snax_phs/snax_hwpe_mult/gemmini, get_streamer_setup_dict/launch_dict, get_xdma_streamer_setup_dict"]
    chk.explanation = (
        "(a) Translation validation of convert-accfg-to-csr on generated accfg programs after trace/dedup/overlap: "
        "the accfg-level IR runs on an abstract machine, the lowered IR on a concrete CSR machine (llvm.inline_asm "
        "csrw/csrr and the RoCC .insn form interpreted) on shared symbolic paths; z3 proves that the CSR event "
        "sequence is exactly the prescribed expansion (one write per field at the declared address with the field's "
        "value, launch writes, the await pattern of the barrier style, calls in order) and, for the instruction-"
        "configured accelerator, that every issued instruction carries the values currently in effect for rs1 and "
        "rs2. No accfg op and no state/token-typed value may remain. (b) The address maps returned by the real "
        "generate_acc_op for enumerated configurations are proved injective (setup, launch, barrier, reserved status "
        "registers) and aligned with the accelerator's field tuples; the xDMA multicast size is symbolic.")
    chk.assumptions = ["test accelerators acc1/acc2/rocc1 are thin subclasses of the real SNAXAccelerator/SNAXPollingBarrier{,4}/RoCCAccelerator lowering classes, registered in the context",
                       "polling loops: status register reads return arbitrary values, at most K=2 extra reads per poll",
                       "reserved status registers = the two addresses behind the streamer launch registers (snax.py get_streamer_launch_dict)",
                       "as C01 for loops/calls"]
    progs, n_exh = ac.program_set(chk.tier, chk.seed + 2)
    rprogs = []
    r2 = random.Random(chk.seed + 3)
    seen = set()
    while len(rprogs) < (150 if quick else 1200):
        p = ac.random_prog(r2, r2.randint(2, 5), 2, ["rocc1"], 5, ["args", "c01"])
        if p not in seen and ac.count_cfg(p) >= 2:
            seen.add(p)
            rprogs.append(p)
    cases = [(p, ("dedup",)) for p in progs[:: 2]] + [(p, ()) for p in progs[1:: 4]] + [(p, ("dedup", "overlap")) for p in progs[1:: 4]]
    cases += [(p, ("dedup",)) for p in rprogs] + [(p, ()) for p in rprogs[:: 3]]
    if only in (None, "prog"):
        chk.add_results("lowering_vs_abstract_machine", pmap(case_prog, cases, kw=dict(K=K), chunks=4))
    # maps
    mcases = [("gemmx", m, n, k) for m in (1, 4, 8) for n in range(1, 18) for k in (8,)] + [("gemmx", 8, 8, 16), ("gemmx", 16, 16, 8)]
    mcases += [("alu", None, "default"), ("hwpe",), ("gemmini",), ("xdma", None, "default")]
    for cfg, desc in streamer_configs(rnd, 40 if quick else 300):
        mcases.append(("alu", cfg, desc))
    for cfg, desc in streamer_configs(rnd, 10 if quick else 60):
        mcases.append(("gemmx_cfg", cfg, desc))
    mcases += [("phs", i) for i in range(0, 7)]
    if only in (None, "map"):
        chk.add_results("register_maps", pmap(case_map, mcases, chunks=4))
    if only in (None, "channels"):
        ccases = [(n, g, rnd.randrange(1 << 30)) for n in (8, 4, 16) for g in (2, 3)] + [(8, 1, 7), (8, 4, rnd.randrange(1 << 30))]
        chk.add_results("gemmx_per_channel_launch", pmap(case_gemmx_channels, ccases, chunks=2))
    chk.bounds = dict(programs=len(cases), unroll_K=K, gemmx_n="1..17", streamer_configs="random by VERIF_SEED: 1..5 streamers, 1..6 temporal dims, 1..2 spatial dims, 0..3 options",
                      xdma_multicast="symbolic 1..256", phs_switches="0..6")
    chk.outside = ["xDMA accelerator with non-default streamer configuration (constructor asserts on the default)",
                   "accelerator-specific meaning of registers beyond name/address"]
