"""C16 - returned schedules fit the accelerator template."""

from __future__ import annotations

import itertools
import random
from math import ceil

import numpy as np
import z3

from .. import sym, xshim
from ..harness import mval, replay_pinned, run_case
from ..runner import pmap
from ..sym import SymInt, eng
from . import sched_common as sc
from .c03 import MAX_YIELDS, checks_for, mk_schedule, mk_template, model_bounds, sym_bounds

LEVEL = "other"


# ------------------------------------------------------------------ declarative definitions (z3 over matrix entries)


def z_entry(x):
    return sym.zint(int(x) if isinstance(x, (np.integer,)) else x)


def decl_pure_output_stationary(Aout, tdims):
    """parallel dims (some row non-zero) all precede reduction dims, outside the template dims."""
    T = [list(r[: len(r) - tdims]) for r in Aout]
    ncol = len(T[0]) if T else 0
    par = [z3.Or([z_entry(T[i][j]) != 0 for i in range(len(T))]) for j in range(ncol)]
    bad = [z3.And(z3.Not(par[j1]), par[j2]) for j1 in range(ncol) for j2 in range(j1 + 1, ncol)]
    return z3.Not(z3.Or(bad)) if bad else z3.BoolVal(True)


def decl_memory_flexible(As, sizes, ndims, tdims):
    if not ndims > tdims:
        return z3.BoolVal(True)
    conds = []
    for A, size in zip(As, sizes):
        g = ceil(8 / size)
        rows = []
        for r in A:
            temporal = list(r[: len(r) - tdims])
            spatial = list(r[len(r) - tdims:])
            rows.append(z3.And([z_entry(t) % g == 0 for t in temporal]
                               + [z3.Or([z_entry(s) == 1 for s in spatial])]))
        conds.append(z3.Or(rows) if rows else z3.BoolVal(False))
    return z3.And(conds)


# ------------------------------------------------------------------ (i) every yielded schedule fits


def case_fit(case):
    from snaxc.ir.dart.scheduler import is_memory_flexible_enough, is_pure_output_stationary, scheduler_backtrack

    fam, combo = case[:2]
    by_index = case[2] if len(case) > 2 else None  # concrete bounds: schedules selected through scheduler(schedule_idx=i)
    name, tmaps, tb, smaps, n, els = fam

    def run_sched(B):
        s = mk_schedule(smaps, B)
        t = mk_template(tmaps, tb)
        out = []
        if by_index is not None:
            from snaxc.ir.dart.scheduler import scheduler

            for i in range(8):
                try:
                    out.append(scheduler(t, s, extra_checks=checks_for(combo, els), schedule_idx=i))
                except (IndexError, StopIteration):
                    break
            return t, s, out
        for r in scheduler_backtrack(t, s, extra_checks=checks_for(combo, els)):
            out.append(r)
            if len(out) >= MAX_YIELDS:
                break
        return t, s, out

    def judge(t, r, zge, as_z3):
        """list of (name, cond) for one yielded schedule r"""
        out = []
        td = t.num_dims
        out.append(("enough_dims", r.num_dims >= td))
        if r.num_dims < td:
            return out
        for k in range(1, td + 1):
            tbk = t[0].bounds[-k]
            if tbk:
                out.append((f"inner_bound_le_template", zge(tbk, r[0].bounds[-k])))
        for sp, tp in zip(r, t):
            inner = np.array(sp.pattern.A, dtype=int)[:, -td:]
            tA = np.array(tp.pattern.A, dtype=int)
            br = len(tA) - len(inner)
            if br > 0:
                tA = tA[br:, :]
            out.append(("inner_dims_span_template_rowspace", sc.same_rowspace(inner, tA)))
        if "pos" in combo:
            out.append(("final_is_pure_output_stationary", bool(is_pure_output_stationary(t, r))))
            out.append(("final_pos_declarative", as_z3(decl_pure_output_stationary(np.array(r[-1].pattern.A, dtype=int).tolist(), td))))
        if "mem" in combo:
            out.append(("final_is_memory_flexible", bool(is_memory_flexible_enough(t, r, els))))
            out.append(("final_mem_declarative", as_z3(decl_memory_flexible([np.array(p.pattern.A, dtype=int).tolist() for p in r], els, r.num_dims, td))))
        return out

    def fn():
        B = sym_bounds(n) if by_index is None else [by_index] * n
        t, s, out = run_sched(B)
        for k, r in enumerate(out):
            for nm, c in judge(t, r, lambda a, b: sym.zint(a) >= sym.zint(b), lambda z: z):
                eng().oblige(nm, c, dict(k=k))
        eng().oblige("explored", True)

    def replay(f):
        B = model_bounds(f["model"], n) if by_index is None else [by_index] * n
        t, s, out = run_sched(B)
        for k, r in enumerate(out):
            bad = [nm for nm, c in judge(t, r, lambda a, b: a >= b, lambda z: z3.is_true(z3.simplify(z))) if not c]
            if bad:
                return True, f"family={name} checks={combo} B={B} yield#{k} bounds={r[0].bounds} A={[p.pattern.A.tolist() for p in r]}: {bad}"
        return False, f"B={B}: {len(out)} yields fit"

    return run_case(fn, replay, witness=True, signature=lambda f, v: "fit:" + f["name"],
                    sample=dict(family=name, extra_checks=combo, by_index=by_index), key=str((name, combo, by_index)), max_paths=3000, timeout_ms=10000)


# ------------------------------------------------------------------ (ii) constraint predicates vs declarative definitions


def case_pred(case):
    """symbolic matrix entries (numpy object arrays of proxies) through the real predicates."""
    from snaxc.ir.dart.access_pattern import Schedule, SchedulePattern, Template, TemplatePattern
    from snaxc.ir.dart.affine_transform import AffineTransform
    from snaxc.ir.dart.scheduler import is_memory_flexible_enough, is_pure_output_stationary

    pred, nops, rows, tcols, scols, sizes = case
    ndims = tcols + scols

    def mk(get):
        mats = [np.array([[get(f"a{o}_{i}_{j}") for j in range(ndims)] for i in range(rows)], dtype=object).reshape(rows, ndims)
                for o in range(nops)]
        sch = Schedule(SchedulePattern((2,) * ndims, AffineTransform(m, np.zeros(rows, dtype=int))) for m in mats)
        tmats = [np.zeros((rows, scols), dtype=int) for _ in range(nops)]
        tpl = Template(TemplatePattern((2,) * scols, AffineTransform(m, np.zeros(rows, dtype=int))) for m in tmats)
        return mats, sch, tpl

    def call(sch, tpl):
        if pred == "pos":
            return bool(is_pure_output_stationary(tpl, sch))
        return bool(is_memory_flexible_enough(tpl, sch, list(sizes)))

    def decl(mats):
        if pred == "pos":
            return decl_pure_output_stationary(mats[-1].tolist(), scols)
        return decl_memory_flexible([m.tolist() for m in mats], sizes, ndims, scols)

    def fn():
        mats, sch, tpl = mk(lambda nm: sym.sym(nm))
        with sym.eager():
            got = call(sch, tpl)
        eng().oblige(f"{pred}:agrees_with_definition", decl(mats) == z3.BoolVal(got), dict(got=got))

    def replay(f):
        mats, sch, tpl = mk(lambda nm: mval(f["model"], nm))
        mats = [m.astype(int) for m in mats]
        sch = Schedule(SchedulePattern((2,) * ndims, AffineTransform(m, np.zeros(rows, dtype=int))) for m in mats)
        got = call(sch, tpl)
        exp = z3.is_true(z3.simplify(decl(mats)))
        return got != exp, f"{pred} sizes={sizes} A={[m.tolist() for m in mats]} template_dims={scols}: real={got} definition={exp}"

    return run_case(fn, replay, witness=True, signature=lambda f, v: f["name"], sample=dict(pred=pred, shape=(nops, rows, tcols, scols), sizes=sizes),
                    key=str(case), max_paths=6000)


def case_pass_constraints(case):
    """The dart-scheduler pass itself (where the constraints are requested): the schedule it emits for a 2-D
    element-wise add on snax_alu satisfies the memory-granularity constraint for the operands' element size."""
    from xdsl.parser import Parser

    from snaxc.dialects import dart
    from snaxc.ir.dart.affine_transform import AffineTransform
    from snaxc.transforms.dart.dart_scheduler import DartSchedulerPass
    from .c03 import dart_operation_src

    (r, c), ety = case
    src = dart_operation_src("alu2d", (r, c)).replace("i64", ety)

    def fn():
        ctx = xshim.make_ctx()
        m = Parser(ctx, src).parse_module()
        DartSchedulerPass().apply(ctx, m)
        so = [o for o in m.walk() if isinstance(o, dart.ScheduleOp)][0]
        As = [np.array(AffineTransform.from_affine_map(p.data).A, dtype=int).tolist() for p in so.patterns.data]
        nd = len(so.bounds.data)
        el = int(ety[1:]) // 8
        td = 1  # snax_alu: one spatial dimension
        eng().oblige("pass:emitted_schedule_is_memory_flexible", decl_memory_flexible(As, [el] * len(As), nd, td),
                     dict(shape=(r, c), element=ety, bounds=[b.value.data for b in so.bounds.data], patterns=[str(p.data) for p in so.patterns.data]))

    return run_case(fn, lambda f: replay_pinned(fn, f), signature=lambda f, v: f["name"], sample=dict(case=str(case)), key=str(case))


# ------------------------------------------------------------------ (iii) TemplatePattern.matches vs exact oracle


def case_matches(case):
    """SVD-based matcher (floating point, not encodable) run concretely; oracle = exact row-space equality decided
    by z3 over the rationals."""
    from snaxc.ir.dart.access_pattern import SchedulePattern, TemplatePattern
    from snaxc.ir.dart.affine_transform import AffineTransform

    tA, sA = case
    tA, sA = np.array(tA, dtype=int), np.array(sA, dtype=int)

    def real():
        tp = TemplatePattern((2,) * tA.shape[1], AffineTransform(tA, np.zeros(len(tA), dtype=int)))
        sp = SchedulePattern((2,) * sA.shape[1], AffineTransform(sA, np.zeros(len(sA), dtype=int)))
        return bool(tp.matches(sp))

    def oracle():
        s = sA
        if s.shape[1] > tA.shape[1]:
            s = s[:, -tA.shape[1]:]
        elif s.shape[1] < tA.shape[1]:
            return False
        t = tA
        br = len(t) - len(s)
        if br > 0:
            t = t[br:, :]
        return sc.same_rowspace(t, s)

    def fn():
        eng().oblige("matches:agrees_with_exact_rowspace", z3.BoolVal(real() == oracle()))

    def replay(f):
        r, o = real(), oracle()
        return r != o, f"template A={tA.tolist()} schedule A={sA.tolist()} matches={r} exact={o}"

    return run_case(fn, replay, witness=True, signature="matches:agrees_with_exact_rowspace", sample=dict(template=tA.tolist(), schedule=sA.tolist()),
                    key=str(case))


def run(chk):
    quick = chk.tier == "quick"
    only = getattr(chk, "only", None)
    rnd = random.Random(chk.seed)
    fams = sc.families(chk.tier)
    # a matmul with one row (M = 1) as the dart-scheduler pass hands it over after canonicalisation: the unit dimension
    # is gone, the schedule has fewer dimensions (n, k) than the matmul template (m, n, k)
    from xdsl.ir.affine import AffineConstantExpr, AffineDimExpr, AffineMap

    d0_, d1_, zero_ = AffineDimExpr(0), AffineDimExpr(1), AffineConstantExpr(0)
    mv = [AffineMap(2, 0, (zero_, d1_)), AffineMap(2, 0, (d1_, d0_)), AffineMap(2, 0, (zero_, d0_))]
    fams = fams + [("matvec_on_matmul_template", sc.maps_matmul(), (8, 8, 8), mv, 2, (1, 1, 4))]
    chk.functions = [
        "snaxc.ir.dart.scheduler.scheduler_backtrack / is_pure_output_stationary / is_memory_flexible_enough",
        "snaxc.ir.dart.access_pattern.TemplatePattern.matches / same_nonzero_singular_vectors (concrete, SVD)",
    ]
    chk.explanation = (
        "Same symbolic runs of the real scheduler_backtrack as C03 (unbounded symbolic iteration bounds): for every "
        "yielded schedule on every path the solver proves inner bounds <= template bounds under the path condition; "
        "inner sub-matrices are compared with the template by exact row-space equality (z3 over rationals); each "
        "requested constraint is re-evaluated on the final schedule by the real predicate and by a declarative z3 "
        "definition. The two predicates are also executed with fully symbolic matrix entries (numpy object arrays "
        "of proxies) and proved equal to the declarative definitions for all integer matrices of the enumerated "
        "shapes. TemplatePattern.matches (floating-point SVD) is NOT encodable: it is run on enumerated concrete "
        "integer matrices and compared with the exact solver oracle (reported separately, enumeration + oracle).")
    chk.assumptions = ["element sizes concrete from {1,2,3,4,5,6,8,16} (ceil(8/size) uses float division)",
                       "schedule has at least as many dims as the template in the `matches` oracle, as in the code",
                       "at most %d yields per path" % MAX_YIELDS]
    combos = [(), ("pos",), ("mem",), ("pos", "mem")]
    if only in (None, "fit"):
        chk.add_results("yielded_schedules_fit", pmap(case_fit, [(f, c) for f in fams for c in combos]))
        # the same through scheduler(..., schedule_idx=i) for every index it offers (concrete bounds)
        chk.add_results("schedules_selected_by_index", pmap(case_fit, [(f, c, bnd) for f in fams for c in combos[1:] for bnd in ((16, 24) if quick else (8, 16, 24, 48))]))
    cases = []
    for rows in (1, 2):
        for tcols in (1, 2, 3):
            cases.append(("pos", 1, rows, tcols, 1, (1,)))
    for size in (1, 2, 4, 8, 3, 6, 5, 16):  # incl. widths that do not divide the bank (i24, i48, i40) and wider than it
        for rows, tcols, scols in ((1, 1, 1), (1, 2, 1), (2, 1, 1), (2, 2, 1), (1, 1, 2), (2, 1, 2)) + (() if quick else ((2, 2, 2),)):
            cases.append(("mem", 1, rows, tcols, scols, (size,)))
    cases.append(("mem", 2, 1, 1, 1, (1, 4)))
    cases.append(("mem", 2, 1, 0, 1, (1, 4)))
    if only in (None, "pred"):
        chk.add_results("predicates_vs_definition", pmap(case_pred, cases))
    if only in (None, "pass"):
        chk.add_results("pass_level_constraints", pmap(case_pass_constraints, [(shp, ety) for shp in ((8, 3), (16, 2), (8, 8), (4, 8), (3, 8), (16, 4)) for ety in ("i8", "i16", "i64")]))
    ent = (-1, 0, 1, 2)
    cases = []
    shapes = [((1, 2), (1, 2)), ((2, 2), (2, 2)), ((2, 2), (1, 2)), ((1, 2), (2, 2)), ((2, 2), (2, 3)), ((2, 2), (3, 2)), ((1, 1), (1, 1))]
    if not quick:
        shapes += [((2, 3), (2, 3)), ((3, 3), (2, 3)), ((2, 3), (3, 3)), ((3, 2), (2, 2)), ((2, 2), (3, 3))]
    for (tr, tc), (sr, sc_) in shapes:
        nt, ns = len(ent) ** (tr * tc), len(ent) ** (sr * sc_)
        budget = 150 if quick else 600
        for _ in range(budget):
            cases.append(([[rnd.choice(ent) for _ in range(tc)] for _ in range(tr)],
                          [[rnd.choice(ent) for _ in range(sc_)] for _ in range(sr)]))
    # nearly parallel rows with large coefficients (a flattened tile with row pitch c against a padded pitch c +- 1):
    # the angle between the row spaces is ~1/c^2, where a tolerance on the wrong quantity accepts a non-match
    for c in (15, 16, 64, 100, 128, 1024, 4096) if quick else (7, 15, 16, 31, 64, 100, 128, 255, 512, 1000, 1024, 2048, 4096):
        for d in (-1, 0, 1, 2):
            cases.append(([[c, 1]], [[c + d, 1]]))
            cases.append(([[c, 1]], [[2 * (c + d), 2]]))
            cases.append(([[c, 1, 0], [0, 0, 1]], [[c + d, 1, 0], [0, 0, 1]]))
            cases.append(([[c, 1, 0], [0, 0, 1]], [[c + d, 1, 1], [0, 0, 1]]))  # same span iff d == 0
            if c <= 128:  # coefficients <= 2^14; beyond ~2^20 the float tolerance of the matcher itself gives way (outside)
                cases.append(([[c * c, c, 1]], [[c * c + d, c, 1]]))
            cases.append(([[1, 0, 0], [0, c, 1]], [[1, 0, 0], [0, c + d, 1]]))
    if only in (None, "matches"):
        chk.add_results("matches_vs_exact_oracle", pmap(case_matches, cases, chunks=16))
    chk.bounds = dict(families=[f[0] for f in fams], bounds="symbolic >= 1 unbounded", predicate_shapes="rows<=2, temporal<=3, spatial<=2, fully symbolic entries",
                      matches="entries in {-1,0,1,2}, shapes <= 3x3, sampled by VERIF_SEED; nearly parallel rows with pitch c vs c+d, c <= 4096")
    chk.outside = ["TemplatePattern.matches for all matrices (floating point); coefficients above 2^14: observed on the unchanged tree that rows "
                   "(2^20, 2^10, 1) and (2^20 - 1, 2^10, 1) are taken for the same subspace (angle 1e-9 is below the matcher's tolerance)", "is_output_channel_stationary (not used by the pass)",
                   "symbolic element sizes"]
