"""C07 - assumed accelerator state is always a subset of the real state."""

from __future__ import annotations

import z3

from .. import accfg_common as ac
from .. import irsym, sym, xshim
from ..harness import replay_pinned, run_case
from ..runner import pmap
from ..sym import eng
from .c01 import situation

LEVEL = "other"


def build(src, partial=None):
    from xdsl.parser import Parser

    from snaxc.transforms.convert_linalg_to_accfg import TraceStatesPass

    ctx = xshim.make_ctx()
    m = Parser(ctx, src).parse_module()
    TraceStatesPass().apply(ctx, m)
    if partial is not None:
        # pre-existing, partially threaded state: keep the (valid) links of the first tracing on some setups only,
        # strip them from the others, and trace again
        import random as _random

        from xdsl.rewriter import Rewriter

        from snaxc.dialects import accfg

        rnd = _random.Random(partial)
        for op in [o for o in m.walk() if isinstance(o, accfg.SetupOp) and o.in_state is not None]:
            if rnd.random() < 0.5:
                new = accfg.SetupOp(op.values, op.param_names, op.accelerator, None)
                Rewriter.replace_op(op, new)
        TraceStatesPass().apply(ctx, m)
    return m


def check_states(m, K, W):
    from snaxc.inference.trace_acc_state import infer_state_of

    fields = ac.collect_fields(m)
    args = ac.std_args(W)
    holder = {}

    def on_state(value, op, where):
        I, M = holder["I"], holder["M"]
        acc = value.type.accelerator.data
        try:
            st = infer_state_of(value)  # the real analysis
        except Exception as e:
            eng().notes.append(f"infer_state_of raised {type(e).__name__}")
            return
        for f, v in st.items():
            kind = where.split("_iter")[0].split("_trips")[0]
            info = dict(where=where, acc=acc, field=f, kind=kind)
            try:
                val = I.get(v)
            except irsym.Undefined:
                eng().oblige(f"assumed_value_not_available@{kind}", False, info)
                continue
            eng().oblige(f"assumed_state_holds@{kind}", irsym.term_eq(M.reg(acc, f), val), info)
        eng().oblige("state_checked", True)

    I = irsym.Interp(W=W, K=K, shared={})
    M = ac.Machine(I, fields)
    M.on_state = on_state
    holder.update(I=I, M=M)
    I.handlers.update(ac.machine_handlers(M))
    fn = [f for f in irsym.module_funcs(m) if f.sym_name.data == "f"][0]
    try:
        I.run_func(fn, args)
    except irsym.Undefined as e:
        # the traced program links a setup to a state that is not defined on this path (a non-dominating value)
        eng().oblige("traced:every_linked_state_is_defined_on_the_path_that_reaches_the_setup", False, dict(error=str(e)[:160]))
    # threading: every setup's in_state must be the state that really precedes it -> covered by the register check
    # at the setup's out_state (infer_state_of(out_state) includes the inherited fields).


def case_prog(prog, K=2, W=32):
    partial = None
    if prog and prog[0] == "partially_threaded":
        _, partial, prog = prog
    src = ac.render(prog)
    try:
        m = build(src, partial)
    except Exception as e:
        return dict(rejected=f"{type(e).__name__}: {str(e)[:80]}", case=str(prog)[:300])

    def fn():
        check_states(m, K, W)

    def replay(f):
        def again():
            check_states(build(src, partial), max(K, 4), W)
        ok, d = replay_pinned(again, f)
        d["program"] = src
        d["situation"] = situation(prog)
        return ok, d

    def sig(f, v):
        return f["name"]

    return run_case(fn, replay, signature=sig, sample=dict(program=str(prog)), key=str(prog), max_paths=400)


def run(chk):
    from .. import runner as _runner

    _runner.CASE_TIMEOUT_S = min(_runner.CASE_TIMEOUT_S, 30)  # a pass that does not terminate on an input is a rejected input
    quick = chk.tier == "quick"
    progs, n_exh = ac.program_set(chk.tier, chk.seed)
    K = 2 if quick else 3
    chk.functions = ["snaxc.transforms.convert_linalg_to_accfg.TraceStatesPass/_weave_states_in_region",
                     "snaxc.inference.trace_acc_state.infer_state_of/state_intersection/infer_states_for_if",
                     "snaxc.inference.helpers.has_accfg_effects/calc_if_state_delta"]
    chk.explanation = (
        "Untraced accfg programs (grammar of DESIGN section 2) go through the real accfg-trace-states; the traced IR is "
        "executed symbolically on the abstract CSR machine (arguments, bounds, branch conditions, initial registers, "
        "call clobbers symbolic; loops unrolled to K). Every time a !accfg.state SSA value becomes defined (setup "
        "result, loop block argument on EACH iteration, scf.if result, scf.for result for each trip count) the real "
        "infer_state_of is called and z3 proves reg[field] == value for every pair it returns under the path condition.")
    chk.assumptions = ["as C01: step > 0, bounds in [0,4096), K-bounded unrolling, un-annotated calls clobber all registers",
                       "programs on which the real pass raises or does not terminate are tallied as rejected"]
    chk.add_results("infer_state_vs_machine", pmap(case_prog, progs, kw=dict(K=K), chunks=4))
    # pre-existing partially threaded state: every third program, traced, partially un-threaded, traced again
    import random as _random

    rnd = _random.Random(chk.seed)
    pt = [("partially_threaded", rnd.randrange(1 << 30), p) for i, p in enumerate(progs) if i % 3 == 0 and ac.count_cfg(p) >= 2]
    chk.add_results("partially_threaded_input", pmap(case_prog, pt, kw=dict(K=K), chunks=4))
    chk.bounds = dict(programs=len(progs), exhaustive_part=n_exh, unroll_K=K)
    chk.outside = ["pre-threaded links that were already wrong in the input (only valid partial threading is generated)", "region ops other than scf.for/scf.if", f"more than {K} iterations"]
