"""C18 - kernel recognition and expansion preserve the scalar function."""

from __future__ import annotations

import itertools
import random

import z3

from .. import irsym, sym, xshim
from ..harness import mval, replay_pinned, run_case
from ..runner import pmap
from ..sym import SymInt, eng

LEVEL = "translation_validation"

WIDTHS = (8, 16, 32, 64)


# ------------------------------------------------------------------ body descriptions
# body = (arg_widths tuple, ops list, yield_index)
# op = (kind, operand value indices...) for addi/muli/subi ; ('extsi', src, target_width)
# value indices: 0..nargs-1 block args, then op results in order


def body_types(body):
    argw, ops, y = body
    ws = list(argw)
    for op in ops:
        if op[0] == "extsi":
            ws.append(op[2])
        else:
            ws.append(ws[op[1]])
    return ws


def valid(body):
    argw, ops, y = body
    ws = list(argw)
    for op in ops:
        if op[0] == "extsi":
            if op[1] >= len(ws) or ws[op[1]] >= op[2]:
                return False
            ws.append(op[2])
        else:
            if op[1] >= len(ws) or op[2] >= len(ws) or ws[op[1]] != ws[op[2]]:
                return False
            ws.append(ws[op[1]])
    return y < len(ws) and ws[y] == argw[-1]


def build_generic(body):
    from xdsl.dialects import arith, builtin, linalg, test
    from xdsl.dialects.builtin import IntegerType, MemRefType
    from xdsl.ir import Block, Region
    from xdsl.ir.affine import AffineMap

    argw, ops, y = body[:3]
    captured = body[3] if len(body) > 3 else frozenset()  # positions that are values defined in front of the generic
    alltys = [IntegerType(w) for w in argw]
    tys = [t for i, t in enumerate(alltys) if i not in captured]
    b = Block(arg_types=tys)
    outer = [test.TestOp(result_types=[alltys[i]]) for i in sorted(captured)]
    it_args, it_out = iter(b.args), iter(outer)
    vals = [next(it_out).res[0] if i in captured else next(it_args) for i in range(len(argw))]
    K = {"addi": arith.AddiOp, "muli": arith.MuliOp, "subi": arith.SubiOp}
    for op in ops:
        if op[0] == "extsi":
            o = arith.ExtSIOp(vals[op[1]], IntegerType(op[2]))
        else:
            o = K[op[0]](vals[op[1]], vals[op[2]])
        b.add_op(o)
        vals.append(o.results[0])
    b.add_op(linalg.YieldOp(vals[y]))
    srcs = [test.TestOp(result_types=[MemRefType(t, [8])]) for t in tys]
    m = builtin.AffineMapAttr(AffineMap.identity(1))
    g = linalg.GenericOp([s.res[0] for s in srcs[:-1]], [srcs[-1].res[0]], Region(b), [m] * len(tys),
                         [linalg.IteratorTypeAttr.parallel()])
    mod = builtin.ModuleOp([*outer, *srcs, g])
    return mod


def outer_values(mod):
    """scalar values defined in front of the generic (captured by its body), in definition order."""
    from xdsl.dialects import test
    from xdsl.dialects.builtin import IntegerType

    return [o.res[0] for o in mod.walk() if isinstance(o, test.TestOp) and o.res and isinstance(o.res[0].type, IntegerType)]


def find_generic(mod):
    from xdsl.dialects import linalg

    return [o for o in mod.walk() if isinstance(o, linalg.GenericOp)][0]


def eval_body(block, argvals, handlers=None, outer=None):
    I = irsym.Interp(W=64)
    I.handlers["linalg.yield"] = lambda I, op: tuple(I.get(o) for o in op.operands)
    if handlers:
        I.handlers.update(handlers)
    for a, v in zip(block.args, argvals):
        I.set(a, v)
    for a, v in (outer or []):
        I.set(a, v)
    r = I.run_block(block)
    return r[0]


def body_text(block):
    return "; ".join(str(o).split(" : ")[0][:70] for o in block.ops)


# ------------------------------------------------------------------ (A) recognition + expansion


def case_body(body):
    from snaxc.dialects.kernel import KernelOp
    from snaxc.transforms.convert_kernel_to_linalg import ConvertKernelToLinalg
    from snaxc.transforms.convert_linalg_to_kernel import ConvertLinalgToKernel

    captured = body[3] if len(body) > 3 else frozenset()

    def pipeline():
        ctx = xshim.make_ctx()
        m0 = build_generic(body)
        m1 = m0.clone()
        ConvertLinalgToKernel().apply(ctx, m1)
        g1 = find_generic(m1)
        recognised = [type(o).__name__ for o in g1.body.block.ops if isinstance(o, KernelOp)]
        m2 = m1.clone()
        ConvertKernelToLinalg().apply(ctx, m2)
        return m0, m1, m2, recognised

    def fn():
        m0, m1, m2, rec = pipeline()
        argw = body[0]
        allv = [z3.BitVec(f"x{i}", w) for i, w in enumerate(argw)]
        args = [v for i, v in enumerate(allv) if i not in captured]
        outs = [v for i, v in enumerate(allv) if i in captured]
        f0 = eval_body(find_generic(m0).body.block, args, outer=list(zip(outer_values(m0), outs)))
        f2 = eval_body(find_generic(m2).body.block, args, outer=list(zip(outer_values(m2), outs)))
        E = eng()
        E.notes.append(f"recognised={rec}")
        if rec:
            E.oblige("recognised_body:same_function_after_expansion", f0 == f2,
                     dict(kernel=rec, before=body_text(find_generic(m0).body.block), after=body_text(find_generic(m2).body.block)))
            E.oblige("expansion:no_kernel_left", z3.BoolVal(not [o for o in find_generic(m2).body.block.ops if o.name.startswith("kernel.")]))
        else:
            E.oblige("unrecognised_body:unchanged", z3.BoolVal(body_text(find_generic(m0).body.block) == body_text(find_generic(m2).body.block)))
            E.oblige("unrecognised_body:same_function", f0 == f2)

    def replay(f):
        m0, m1, m2, rec = pipeline()
        argw = body[0]
        allv = [z3.BitVecVal(mval(f["model"], f"x{i}"), w) for i, w in enumerate(argw)]
        args = [v for i, v in enumerate(allv) if i not in captured]
        outs = [v for i, v in enumerate(allv) if i in captured]
        a = irsym.bvval(eval_body(find_generic(m0).body.block, args, outer=list(zip(outer_values(m0), outs))))
        b = irsym.bvval(eval_body(find_generic(m2).body.block, args, outer=list(zip(outer_values(m2), outs))))
        return a != b, dict(inputs=[mval(f["model"], f"x{i}") for i in range(len(argw))], before=a, after=b, kernel=rec,
                            body=body_text(find_generic(m0).body.block), expanded=body_text(find_generic(m2).body.block))

    def sig(f, v):
        d = v.get("detail") or {}
        k = "+".join(d.get("kernel", [])) if isinstance(d, dict) else ""
        canonical = body in CANON_SET
        return f"{f['name']}|kernel={k}|" + ("canonical_body" if canonical else "body_capturing_an_outside_value" if captured else "differently_wired_body")

    return run_case(fn, replay, signature=sig, sample=dict(body=str(body)), key=str(body), timeout_ms=20000)


def canon_bodies():
    out = []
    for w in WIDTHS:
        out.append(((w, w, w), [("muli", 0, 1)], 3))
        out.append(((w, w, w), [("addi", 0, 1)], 3))
        out.append(((w, w, w), [("muli", 0, 1), ("addi", 2, 3)], 4))
    for wi, wo in ((8, 16), (8, 32), (16, 32), (8, 64), (16, 64), (32, 64)):
        out.append(((wi, wi, wo), [("extsi", 0, wo), ("extsi", 1, wo), ("muli", 3, 4), ("addi", 2, 5)], 6))
        out.append(((wi, wi, wo, wo, wo), [("extsi", 0, wo), ("subi", 5, 2), ("extsi", 1, wo), ("subi", 7, 3), ("muli", 6, 8), ("addi", 4, 9)], 10))
    return out


CANON_SET = set()


def all_wirings(argw, kinds, ext_targets):
    """all valid bodies with the given op-kind sequence."""
    nargs = len(argw)
    out = []

    def rec(i, ops, ws):
        if i == len(kinds):
            for y in range(len(ws)):
                if ws[y] == argw[-1]:
                    out.append((tuple(argw), list(ops), y))
            return
        k = kinds[i]
        if k == "extsi":
            for s in range(len(ws)):
                for t in ext_targets:
                    if ws[s] < t:
                        rec(i + 1, ops + [("extsi", s, t)], ws + [t])
        else:
            for a in range(len(ws)):
                for b in range(len(ws)):
                    if ws[a] == ws[b]:
                        rec(i + 1, ops + [(k, a, b)], ws + [ws[a]])

    rec(0, [], list(argw))
    return out


def mutate(body, rnd):
    """single-edge rewiring of a body (keeps op kinds)."""
    argw, ops, y = body
    ops = [list(o) for o in ops]
    ws = body_types(body)
    for _ in range(20):
        i = rnd.randrange(len(ops) + 1)
        if i == len(ops):
            cand = [j for j in range(len(ws)) if ws[j] == argw[-1] and j != y]
            if cand:
                nb = (argw, [tuple(o) for o in ops], rnd.choice(cand))
                if valid(nb):
                    return nb
            continue
        o = ops[i]
        pos = 1 if o[0] == "extsi" else rnd.choice((1, 2))
        avail = len(argw) + i
        cand = [j for j in range(avail) if j != o[pos] and (ws[j] == ws[o[pos]] or o[0] == "extsi")]
        if not cand:
            continue
        if o[0] != "extsi" and rnd.random() < 0.3:
            o[1], o[2] = o[2], o[1]
        else:
            o[pos] = rnd.choice(cand)
        nb = (argw, [tuple(x) for x in ops], y)
        if valid(nb):
            return nb
    return None


# ------------------------------------------------------------------ (A2) expansion of a named kernel vs its meaning


def case_kernel_meaning(case):
    """a directly constructed kernel op is expanded by convert-kernel-to-linalg; reference = the kernel's documented
    meaning: mul a*b, add a+b, mac acc+sext(a)*sext(b), qmac acc+(sext(a)-zp_a)*(sext(b)-zp_b)."""
    from xdsl.dialects import builtin, linalg, test
    from xdsl.dialects.builtin import IntegerType, MemRefType
    from xdsl.ir import Block, Region
    from xdsl.ir.affine import AffineMap

    from snaxc.dialects import kernel
    from snaxc.transforms.convert_kernel_to_linalg import ConvertKernelToLinalg

    kname, widths = case[:2]
    post = case[2] if len(case) > 2 else None  # an operation fused behind the kernel op in the same body
    wiring = case[3] if len(case) > 3 else None  # which block argument feeds which kernel operand (None: in order)
    KCLS = {"mul": kernel.MulOp, "add": kernel.AddOp, "mac": kernel.MacOp, "qmac": kernel.QMacOp}

    def expanded():
        from xdsl.dialects import arith

        tys = [IntegerType(w) for w in widths]
        b = Block(arg_types=tys)
        k = KCLS[kname](operands=[b.args[i] for i in wiring] if wiring else list(b.args[:-1]), result_types=[tys[-1]])
        if post is None:
            b.add_ops([k, linalg.YieldOp(k)])
        elif post == "yield_out":
            b.add_ops([k, linalg.YieldOp(b.args[-1])])  # the kernel op is dead: the body returns the output element unchanged
        else:
            p = {"muli_self": arith.MuliOp, "addi_self": arith.AddiOp, "subi_acc": arith.SubiOp}[post](k.results[0], b.args[-1] if post == "subi_acc" else k.results[0])
            b.add_ops([k, p, linalg.YieldOp(p)])
        srcs = [test.TestOp(result_types=[MemRefType(t, [16])]) for t in tys]
        m = builtin.AffineMapAttr(AffineMap.identity(1))
        g = linalg.GenericOp([s.res[0] for s in srcs[:-1]], [srcs[-1].res[0]], Region(b), [m] * len(tys), [linalg.IteratorTypeAttr.parallel()])
        mod = builtin.ModuleOp([*srcs, g])
        ConvertKernelToLinalg().apply(xshim.make_ctx(), mod)
        mod.verify()
        return find_generic(mod)

    def ref(a):
        wo = widths[-1]
        ext = lambda v: z3.SignExt(wo - v.size(), v) if v.size() < wo else v
        if kname == "mul":
            return a[0] * a[1]
        if kname == "add":
            return a[0] + a[1]
        if kname == "mac":
            return a[2] + ext(a[0]) * ext(a[1])
        return a[4] + (ext(a[0]) - a[2]) * (ext(a[1]) - a[3])

    def full(a):
        r = ref([a[i] for i in wiring] + [a[-1]] if wiring else a)
        if post == "muli_self":
            return r * r
        if post == "addi_self":
            return r + r
        if post == "subi_acc":
            return r - a[-1]
        if post == "yield_out":
            return a[-1]
        return r

    def h_kernel(I, op):
        # a kernel op the pass left in place is evaluated by its meaning
        I.set(op.results[0], ref([I.get(o) for o in op.operands] + [I.get(op.parent_block().args[-1])]))

    KH = {f"kernel.{n}": h_kernel for n in ("mul", "add", "mac", "qmac")}

    def fn():
        g = expanded()
        args = [z3.BitVec(f"x{i}", w) for i, w in enumerate(widths)]
        got = eval_body(g.body.block, args, KH)
        E = eng()
        if post is None and wiring is None:
            E.oblige("expansion:no_kernel_left", z3.BoolVal(not [o for o in g.body.block.ops if o.name.startswith("kernel.")]))
        E.oblige(f"expansion:computes_kernel_meaning|kernel={kname}" + ("|body_does_not_yield_the_kernel_result" if post == "yield_out" else "|fused_body" if post else "") + ("|operands_not_the_block_arguments_in_order" if wiring else ""),
                 got == full(args), dict(expanded=body_text(g.body.block), fused=post, wiring=wiring))

    def replay(f):
        g = expanded()
        args = [z3.BitVecVal(mval(f["model"], f"x{i}"), w) for i, w in enumerate(widths)]
        a, b = irsym.bvval(eval_body(g.body.block, args, KH)), irsym.bvval(z3.simplify(full(args)))
        return a != b, dict(kernel=kname, widths=widths, inputs=[mval(f["model"], f"x{i}") for i in range(len(widths))], expanded=a, meaning=b,
                            body=body_text(g.body.block))

    return run_case(fn, replay, signature=lambda f, v: f["name"], sample=dict(kernel=kname, widths=widths), key=str(case), timeout_ms=30000)


# ------------------------------------------------------------------ (B) rescale expansion vs golden model

MAGIC_MULT, MAGIC_SHIFT = 1234567891, 41


def golden_bv(x32, zp_in, zp_out, shift, mx, mn, double_round, mult, mulf):
    """10-line SMT transcription of util/gemmx/simd_golden_model.py (numpy int32/int64 semantics)."""
    var = x32 - zp_in                                           # int32 - int (weak) -> int32
    var = mulf(z3.SignExt(32, var), z3.SignExt(32, mult))       # np.int64(var) * np.int64(multiplier)
    var = z3.Extract(31, 0, var >> (z3.ZeroExt(32, shift) - 1))  # np.int32(var >> (shift - 1))
    if double_round:
        var = z3.If(var >= 0, var + 1, var - 1)
    var = var >> 1
    var = var + zp_out
    var = z3.If(var < mn, mn, z3.If(var > mx, mx, var))         # np.clip
    return var


def golden_numpy(x, zp_in, zp_out, shift, mx, mn, dr, mult):
    import importlib.util
    import numpy as np

    spec = importlib.util.spec_from_file_location("simd_golden_model", xshim.REPO + "/util/gemmx/simd_golden_model.py")
    mod = importlib.util.module_from_spec(spec)
    spec.loader.exec_module(mod)
    with np.errstate(all="ignore"):
        r = mod.postprocessing_simd_golden_model(np.array([x], dtype=np.int32), zp_in, zp_out, shift, mx, mn, dr, mult)
    return int(r[0])


def case_rescale_channels(case):
    """kernel.rescale with one multiplier / shift per output channel: a body has no notion of the channel, so the
    expansion must not apply one channel's parameters to all of them (leaving the op in place is fine)."""
    from xdsl.dialects import builtin, linalg, test
    from xdsl.dialects.builtin import IntegerType, MemRefType, i32
    from xdsl.ir import Block, Region
    from xdsl.ir.affine import AffineMap

    from snaxc.dialects import kernel
    from snaxc.transforms.convert_kernel_to_linalg import ConvertKernelToLinalg

    mults, shifts, out_w = case

    def fn():
        b = Block(arg_types=[i32, IntegerType(out_w)])
        r = kernel.RescaleOp(b.args[0], IntegerType(out_w), 1, 2, list(mults), list(shifts), 127, -128, False)
        b.add_ops([r, linalg.YieldOp(r)])
        srcs = [test.TestOp(result_types=[MemRefType(i32, [2, 8])]), test.TestOp(result_types=[MemRefType(IntegerType(out_w), [2, 8])])]
        m = builtin.AffineMapAttr(AffineMap.identity(2))
        g = linalg.GenericOp([srcs[0].res[0]], [srcs[1].res[0]], Region(b), [m, m], [linalg.IteratorTypeAttr.parallel()] * 2)
        mod = builtin.ModuleOp([*srcs, g])
        ConvertKernelToLinalg().apply(xshim.make_ctx(), mod)
        left = [o for o in find_generic(mod).body.block.ops if o.name == "kernel.rescale"]
        per_channel = len(set(mults)) > 1 or len(set(shifts)) > 1
        eng().oblige("rescale:per_channel_parameters_not_collapsed_onto_one_channel", z3.BoolVal(bool(left) or not per_channel),
                     dict(multipliers=list(mults), shifts=list(shifts), expanded=not left))

    return run_case(fn, lambda f: replay_pinned(fn, f), signature=lambda f, v: f["name"], sample=dict(case=str(case)), key=str(case))


def case_rescale(case):
    from xdsl.dialects import arith, builtin, linalg, test
    from xdsl.dialects.builtin import IntegerType, MemRefType, i8, i32
    from xdsl.ir import Block, Region
    from xdsl.ir.affine import AffineMap

    from snaxc.dialects import kernel
    from snaxc.transforms.convert_kernel_to_linalg import ConvertKernelToLinalg

    double_round, out_w = case

    def lowered(get):
        b = Block(arg_types=[i32, IntegerType(out_w)])
        r = kernel.RescaleOp(b.args[0], IntegerType(out_w), get("zp_in"), get("zp_out"), [MAGIC_MULT], [MAGIC_SHIFT],
                             get("max"), get("min"), bool(double_round))
        b.add_ops([r, linalg.YieldOp(r)])
        srcs = [test.TestOp(result_types=[MemRefType(i32, [8])]), test.TestOp(result_types=[MemRefType(IntegerType(out_w), [8])])]
        m = builtin.AffineMapAttr(AffineMap.identity(1))
        g = linalg.GenericOp([srcs[0].res[0]], [srcs[1].res[0]], Region(b), [m, m], [linalg.IteratorTypeAttr.parallel()])
        mod = builtin.ModuleOp([*srcs, g])
        ConvertKernelToLinalg().apply(xshim.make_ctx(), mod)
        return mod

    def run_lowered(mod, x, mult, shift, mulf):
        # constants hoisted in front of the linalg op; multiplier/shift are copied verbatim: markers -> symbolic holes
        I = irsym.Interp(W=64)
        seen = []

        def h_const(I, op):
            v = op.value.value.data
            if isinstance(v, int) and not isinstance(v, SymInt) and v == MAGIC_MULT:
                seen.append("mult")
                I.set(op.result, z3.SignExt(op.result.type.width.data - 32, mult))
            elif isinstance(v, int) and not isinstance(v, SymInt) and v == MAGIC_SHIFT:
                seen.append("shift")
                I.set(op.result, z3.ZeroExt(op.result.type.width.data - 32, shift))
            else:
                irsym._const(I, op)

        I.handlers["arith.constant"] = h_const
        I.handlers["arith.muli"] = lambda I, op: I.set(op.results[0], mulf(I.get(op.lhs), I.get(op.rhs)))
        I.handlers["linalg.yield"] = lambda I, op: tuple(I.get(o) for o in op.operands)
        I.handlers["test.op"] = lambda I, op: [I.set(r, irsym.Opaque("memref")) for r in op.results] and None
        g = None
        for op in mod.body.block.ops:
            if isinstance(op, linalg.GenericOp):
                g = op
            else:
                I.run_op(op)
        I.set(g.body.block.args[0], x)
        r = I.run_block(g.body.block)
        return r[0], seen, g

    def fn():
        E = eng()
        pbv = {n: z3.BitVec(n, 32) for n in ("zp_in", "zp_out", "max", "min")}
        get = lambda nm: SymInt(z3.BV2Int(pbv[nm], True))  # i32 attribute holes backed by bit-vectors
        mod = lowered(get)
        x, mult, shift = z3.BitVec("x", 32), z3.BitVec("mult", 32), z3.BitVec("shift", 32)
        E.assume(z3.And(z3.UGE(shift, 1), z3.ULE(shift, 62)))
        s64 = z3.BitVecSort(64)
        MUL = z3.Function("mul64", s64, s64, s64)  # the product is the same term on both sides: abstracted
        got, seen, g = run_lowered(mod, x, mult, shift, MUL)
        E.oblige("rescale:markers_copied_once", z3.BoolVal(sorted(seen) == ["mult", "shift"]), dict(seen=seen))
        E.oblige("rescale:no_kernel_left", z3.BoolVal(not [o for o in g.body.block.ops if o.name.startswith("kernel.")]))
        zp_in, zp_out, mx, mn = (pbv[n] for n in ("zp_in", "zp_out", "max", "min"))
        E.assume(mn <= mx)
        if out_w == 8:
            E.assume(z3.And(mn >= -128, mx <= 127))  # kernel.rescale contract for i8 results
        ref = golden_bv(x, zp_in, zp_out, shift, mx, mn, double_round, mult, MUL)
        # precondition (documented 'avoiding overflow'): the pre-shifted value fits in int32
        v = MUL(z3.SignExt(32, x - zp_in), z3.SignExt(32, mult))
        pre = v >> (z3.ZeroExt(32, shift) - 1)
        E.assume(z3.And(pre >= -(1 << 31), pre <= (1 << 31) - 1))
        refw = z3.Extract(out_w - 1, 0, ref) if out_w < 32 else ref
        name = f"rescale:expansion_equals_golden_model|double_round={double_round}"
        if got.size() != refw.size():
            E.oblige("rescale:result_width", False, dict(got=got.size(), expected=refw.size()))
            return
        r = E.sat(z3.Not(got == refw))
        if r == "unsat":
            E.oblige(name, True)  # proved with the product abstracted
            return
        # the abstraction admits spurious products: decide again with the real 64-bit multiplication
        real = lambda a, b: a * b
        got2, _, _ = run_lowered(lowered(get), x, mult, shift, real)
        ref2 = golden_bv(x, zp_in, zp_out, shift, mx, mn, double_round, mult, real)
        v2 = z3.SignExt(32, x - zp_in) * z3.SignExt(32, mult)
        pre2 = v2 >> (z3.ZeroExt(32, shift) - 1)
        E.assume(z3.And(pre2 >= -(1 << 31), pre2 <= (1 << 31) - 1))
        ref2w = z3.Extract(out_w - 1, 0, ref2) if out_w < 32 else ref2
        E.oblige(name, got2 == ref2w)

    def replay(f):
        m = f["model"]
        vals = {n: mval(m, n) for n in ("zp_in", "zp_out", "max", "min")}
        vals = {n: (v - (1 << 32) if v >= 1 << 31 else v) for n, v in vals.items()}
        x, mult, shift = mval(m, "x"), mval(m, "mult"), mval(m, "shift")
        sx = x - (1 << 32) if x >= 1 << 31 else x
        smult = mult - (1 << 32) if mult >= 1 << 31 else mult
        mod = lowered(lambda nm: vals[nm])
        real_mul = lambda a, b: a * b
        got, seen, g = run_lowered(mod, z3.BitVecVal(x, 32), z3.BitVecVal(mult, 32), z3.BitVecVal(shift, 32), real_mul)
        got = irsym.bvval(got)
        ref = golden_numpy(sx, vals["zp_in"], vals["zp_out"], shift, vals["max"], vals["min"], double_round, smult)
        ref &= (1 << out_w) - 1
        return got != ref, dict(x=sx, mult=smult, shift=shift, **vals, lowered=got, golden=ref, double_round=double_round)

    return run_case(fn, replay, signature=lambda f, v: f["name"], sample=dict(double_round=double_round, out_width=out_w),
                    key=str(case), timeout_ms=60000)


# ------------------------------------------------------------------ (C) tosa.rescale -> kernel.rescale


def tosa_src(inp_zp, out_zp, mult, shift, dr, clamp, out_w):
    cl = f'%2 = tosa.clamp %1 {{max_val = {clamp[1]} : i{out_w}, min_val = {clamp[0]} : i{out_w}}} : (tensor<4x8xi{out_w}>) -> tensor<4x8xi{out_w}>' if clamp else ""
    res = "%2" if clamp else "%1"
    return f"""
func.func @f(%0 : tensor<4x8xi32>) -> tensor<4x8xi{out_w}> {{
%input_zp = "tosa.const"() <{{ values = dense<{inp_zp}> : tensor<1xi32> }}> : () -> tensor<1xi32>
%output_zp = "tosa.const"() <{{ values = dense<{out_zp}> : tensor<1xi32> }}> : () -> tensor<1xi32>
%multiplier = "tosa.const"() <{{ values = dense<{mult}> : tensor<1xi32> }}> : () -> tensor<1xi32>
%shift = "tosa.const"() <{{ values = dense<{shift}> : tensor<1xi32> }}> : () -> tensor<1xi32>
%1 = tosa.rescale %0, %multiplier, %shift, %input_zp, %output_zp {{rounding_mode = {'DOUBLE_ROUND' if dr else 'SINGLE_ROUND'}, per_channel = false, scale32 = true, input_unsigned = false, output_unsigned = false}} : (tensor<4x8xi32>, tensor<1xi32>, tensor<1xi32>, tensor<1xi32>, tensor<1xi32>) -> tensor<4x8xi{out_w}>
{cl}
func.return {res} : tensor<4x8xi{out_w}>
}}
"""


def case_tosa(case):
    from xdsl.parser import Parser

    from snaxc.dialects import kernel
    from snaxc.transforms.convert_kernel_to_linalg import ConvertKernelToLinalg
    from snaxc.transforms.convert_tosa_to_kernel import ConvertTosaToKernelPass

    inp_zp, out_zp, mult, shift, dr, clamp, out_w = case
    src = tosa_src(*case)

    def fn():
        ctx = xshim.make_ctx()
        m = Parser(ctx, src).parse_module()
        ConvertTosaToKernelPass().apply(ctx, m)
        rs = [o for o in m.walk() if isinstance(o, kernel.RescaleOp)]
        E = eng()
        E.oblige("tosa:converted", z3.BoolVal(len(rs) == 1))
        if len(rs) != 1:
            return
        r = rs[0]
        lo, hi = (clamp if clamp else (-(1 << (out_w - 1)), (1 << (out_w - 1)) - 1))
        E.oblige("tosa:params", z3.BoolVal((r.input_zp.value.data, r.output_zp.value.data, r.multiplier.get_values()[0],
                                            r.shift.get_values()[0], bool(r.double_round.value.data)) == (inp_zp, out_zp, mult, shift, bool(dr))))
        E.oblige("tosa:clamp_range_is_saturation_range", z3.BoolVal((r.min_int.value.data, r.max_int.value.data) == (lo, hi)),
                 dict(got=(r.min_int.value.data, r.max_int.value.data), expected=(lo, hi), clamp=bool(clamp)))
        # after expansion the result is the saturated value: the final trunci must not wrap
        ConvertKernelToLinalg().apply(ctx, m)
        g = find_generic(m)
        x = z3.BitVec("x", 32)
        I = irsym.Interp(W=64)
        I.handlers["linalg.yield"] = lambda I, op: tuple(I.get(o) for o in op.operands)
        pre = {}

        def h_trunc(I, op):
            pre[op] = I.get(op.operands[0])
            irsym.ARITH["arith.trunci"](I, op)

        I.handlers["arith.trunci"] = h_trunc
        for op in m.walk():
            if op.name == "arith.constant":
                I.run_op(op)
        I.set(g.body.block.args[0], x)
        out = I.run_block(g.body.block)[0]
        last = [o for o in g.body.block.ops if o.name == "arith.trunci"][-1]
        E.oblige("tosa:saturating_result_does_not_wrap", z3.SignExt(32 - out.size(), out) == pre[last] if out.size() < 32 else z3.BoolVal(True))

    def replay(f):
        return replay_pinned(fn, f)

    return run_case(fn, replay, signature=lambda f, v: f["name"] + ("|with_clamp" if clamp else "|no_clamp"), sample=dict(case=str(case)), key=str(case))


# ------------------------------------------------------------------ (D) dispatch type check (finite side-check, no solver)


def case_dispatch(case):
    from xdsl.dialects import builtin, linalg, test
    from xdsl.dialects.builtin import IntegerType, MemRefType
    from xdsl.ir import Block, Region
    from xdsl.ir.affine import AffineMap

    from snaxc.accelerators.dispatching import DispatchTemplate
    from snaxc.dialects import kernel
    from snaxc.transforms.dispatch_kernels import DispatchKernels

    kname, widths = case
    KCLS = {"mul": kernel.MulOp, "add": kernel.AddOp, "mac": kernel.MacOp, "qmac": kernel.QMacOp}

    def run_dispatch():
        ctx = xshim.make_ctx()
        tys = [IntegerType(w) for w in widths]
        b = Block(arg_types=tys)
        k = KCLS[kname](operands=list(b.args[:-1]), result_types=[tys[-1]])
        b.add_ops([k, linalg.YieldOp(k)])
        srcs = [test.TestOp(result_types=[MemRefType(t, [16])]) for t in tys]
        m = builtin.AffineMapAttr(AffineMap.identity(1))
        g = linalg.GenericOp([s.res[0] for s in srcs[:-1]], [srcs[-1].res[0]], Region(b), [m] * len(tys), [linalg.IteratorTypeAttr.parallel()])
        accs = []
        decls = []
        for name in sorted(ctx.registered_accelerator_names):
            try:
                a = ctx.get_acc(name)
            except Exception:
                continue
            if isinstance(a, DispatchTemplate):
                try:
                    decls.append(a.generate_acc_op())
                    accs.append(a)
                except Exception:
                    pass
        mod = builtin.ModuleOp([*decls, *srcs, g])
        DispatchKernels().apply(ctx, mod)
        call = g.library_call.data if g.library_call else None
        return call, accs, k

    def fn():
        call, accs, k = run_dispatch()
        E = eng()
        sigt = [*k.operand_types, *k.result_types]
        supporters = [a.name for a in accs if any(s.kernel_type is type(k) and list(s.operand_types) == sigt for s in a.supported_kernels)]
        if call is None:
            E.oblige("dispatch:explored", True)
            return
        base = call[:-7] if call.endswith("_stream") else call
        E.oblige("dispatch:only_to_declaring_accelerator", z3.BoolVal(base in supporters),
                 dict(kernel=kname, types=[str(t) for t in sigt], dispatched_to=call, supporters=supporters))

    def replay(f):
        call, accs, k = run_dispatch()
        sigt = [*k.operand_types, *k.result_types]
        supporters = [a.name for a in accs if any(s.kernel_type is type(k) and list(s.operand_types) == sigt for s in a.supported_kernels)]
        base = None if call is None else (call[:-7] if call.endswith("_stream") else call)
        return call is not None and base not in supporters, dict(kernel=kname, widths=widths, dispatched_to=call, supporters=supporters)

    return run_case(fn, replay, signature="dispatch:only_to_declaring_accelerator", sample=dict(kernel=kname, widths=widths), key=str(case))


def case_declared(case):
    """The predicate every accelerator interface and dispatch rule shares, SupportedKernel.is_same_kernel, against the
    declaration read literally: same kernel class, and the declared list equals operand types followed by result types."""
    from xdsl.dialects.builtin import IntegerType
    from xdsl.ir import Block

    from snaxc.accelerators.streamers.extensions import XDMA_EXT_SET
    from snaxc.dialects import kernel

    kname, widths, signed = case
    sg = {None: None, "s": "signed", "u": "unsigned"}[signed]

    def ity(w):
        from xdsl.dialects.builtin import Signedness

        return IntegerType(w) if sg is None else IntegerType(w, Signedness.SIGNED if sg == "signed" else Signedness.UNSIGNED)

    def fn():
        ctx = xshim.make_ctx()
        decl = []
        for name in sorted(ctx.registered_accelerator_names):
            try:
                a = ctx.get_acc(name)
                decl += [(name, sk) for sk in getattr(a, "supported_kernels", ())]
            except Exception:
                continue
        decl += [(e.name, e.supported_kernel) for e in XDMA_EXT_SET if e.supported_kernel is not None]
        tys = [ity(w) for w in widths]
        b = Block(arg_types=tys)
        if kname == "rescale":
            k = kernel.RescaleOp(b.args[0], tys[-1], 1, 2, [3], [4], 127, -128, False)
        else:
            KCLS = {"mul": kernel.MulOp, "add": kernel.AddOp, "mac": kernel.MacOp, "qmac": kernel.QMacOp}
            k = KCLS[kname](operands=list(b.args[:-1]), result_types=[tys[-1]])
        b.add_op(k)
        E = eng()
        sigt = [*k.operand_types, *k.result_types]
        for owner, sk in decl:
            want = type(k) is sk.kernel_type and list(sk.operand_types) == sigt
            E.oblige("declared_kernel:is_same_kernel_agrees_with_the_declaration", z3.BoolVal(bool(sk.is_same_kernel(k)) == want),
                     dict(declared_by=owner, declared=[str(t) for t in sk.operand_types], kernel=k.name, types=[str(t) for t in sigt]))
        E.oblige("declared_kernel:explored", len(decl) > 0)

    return run_case(fn, lambda f: replay_pinned(fn, f), signature=lambda f, v: f["name"], sample=dict(kernel=kname, widths=widths, signedness=sg), key=str(case))


# ------------------------------------------------------------------ driver


def run(chk):
    global CANON_SET
    quick = chk.tier == "quick"
    only = getattr(chk, "only", None)
    rnd = random.Random(chk.seed)
    canon = canon_bodies()
    CANON_SET = set((a, tuple(o), y) for a, o, y in canon)
    chk.functions = ["snaxc.transforms.convert_linalg_to_kernel.ParseLinalgBody/check_kernel_equivalence",
                     "snaxc.dialects.kernel.{Mul,Add,Mac,QMac}Op.equivalent_region", "snaxc.transforms.convert_kernel_to_linalg.LowerLinalgBody/LowerRescale",
                     "snaxc.transforms.convert_tosa_to_kernel.RescaleClampPattern", "snaxc.transforms.dispatch_kernels.DispatchTemplatePattern",
                     "util/gemmx/simd_golden_model.py (reference; transcribed to SMT and cross-checked on model values)"]
    chk.explanation = (
        "(A) Every generated linalg body (all wirings of the kernels' op-kind sequences up to 4 ops, all bodies of <=2 ops, "
        "seeded single-edge rewirings of the 6-op qmac body, all width combinations that verify) goes through the real "
        "convert-linalg-to-kernel and convert-kernel-to-linalg; body before and expanded body after are evaluated by the IR "
        "interpreter over bit-vectors of the operand widths and z3 proves f_before == f_after for all inputs (QF_BV). "
        "(B) The arithmetic emitted by LowerRescale is compared with an SMT transcription of the in-repo golden model with "
        "symbolic input, zero points, clamp bounds, multiplier and shift (the 64-bit product is the same term on both "
        "sides and is abstracted by an uninterpreted function). (C) convert-tosa-to-kernel: parameters are carried over, "
        "the clamp range is the saturation range of the result type, and the expanded body cannot wrap in its final "
        "truncation (z3 over the i32 input). (D) dispatch-kernels type check: finite side-check over all kernels x width "
        "tuples x registered accelerators (no solver involved).")
    chk.assumptions = ["rescale: shift in 1..62; the value before the final shift fits in int32 (the golden model's own np.int32 conversion would wrap otherwise); min<=max; i8 results clamp within [-128,127]",
                       "LowerRescale copies multiplier and shift verbatim into constants (checked by markers) - they are replaced by symbolic holes in the emitted IR",
                       "kernel semantics = its equivalent_region (the property's definition of expansion)"]
    bodies = []
    seen = set()

    def add(b):
        k = (b[0], tuple(b[1]), b[2])
        if k not in seen and valid(b):
            seen.add(k)
            bodies.append((b[0], tuple(b[1]), b[2]))

    for b in canon:
        add(b)
    widths = (8, 32) if quick else (8, 16, 32)
    for w in widths:
        for kinds in (["muli"], ["addi"], ["subi"], ["muli", "addi"], ["addi", "muli"], ["muli", "muli"], ["addi", "addi"], ["subi", "addi"]):
            for b in all_wirings((w, w, w), kinds, ()):
                add(b)
    for wi, wo in ((8, 32),) + (() if quick else ((8, 16), (16, 32))):
        ws = all_wirings((wi, wi, wo), ["extsi", "extsi", "muli", "addi"], (wo,))
        if quick and len(ws) > 600:
            ws = rnd.sample(ws, 600)
        for b in ws:
            add(b)
    # operand swaps of the binary ops of every canonical body (one or two ops swapped): fine for addi/muli, not for subi
    for b in canon:
        bins = [i for i, o in enumerate(b[1]) if o[0] != "extsi"]
        for r_ in (1, 2):
            for sub in itertools.combinations(bins, r_):
                ops = [tuple(o) if i not in sub else (o[0], o[2], o[1]) for i, o in enumerate(b[1])]
                add((b[0], ops, b[2]))
    # canonical bodies in which one operand is a value captured from outside the body (defined in front of the generic)
    # of the same width: never the kernel, whatever the remaining wiring says
    captured_bodies = []
    for b in canon:
        argw, ops, y = b
        n = len(argw)
        ws = body_types(b)
        sh = lambda j: j if j < n - 1 else j + 1  # the captured value sits right before the output argument
        for i, o in enumerate(ops):
            for pos in range(1, 2 if o[0] == "extsi" else 3):
                w = ws[o[pos]]
                nargw = tuple(argw[:n - 1]) + (w, argw[-1])
                nops = []
                for i2, o2 in enumerate(ops):
                    o3 = [o2[0]] + [sh(x) for x in o2[1:3]] if o2[0] != "extsi" else ["extsi", sh(o2[1]), o2[2]]
                    if i2 == i:
                        o3[pos] = n - 1
                    nops.append(tuple(o3))
                nb = (nargw, tuple(nops), sh(y), frozenset([n - 1]))
                if valid(nb[:3]):
                    captured_bodies.append(nb)
    # qmac: canonical + single-edge rewirings
    for b in canon:
        if len(b[1]) >= 4:
            for _ in range(40 if quick else 200):
                mb = mutate(b, rnd)
                if mb:
                    add(mb)
    if quick and len(bodies) > 1600:
        keep = [b for b in bodies if b in CANON_SET or len(b[1]) <= 1 or len(b[1]) >= 5]
        ks = set(keep)
        rest = [b for b in bodies if b not in ks]
        bodies = keep + rnd.sample(rest, max(0, 1600 - len(keep)))
    bodies = bodies + captured_bodies
    if only in (None, "body"):
        chk.add_results("recognition_and_expansion", pmap(case_body, bodies, chunks=8))
    kcases = [(k, (w, w, w)) for k in ("mul", "add", "mac") for w in WIDTHS]
    kcases += [("mac", (wi, wi, wo)) for wi, wo in ((8, 16), (8, 32), (16, 32), (8, 64), (16, 64), (32, 64))]
    kcases += [("qmac", (wi, wi, wo, wo, wo)) for wi, wo in ((8, 16), (8, 32), (16, 32), (8, 64), (16, 64), (32, 64))]
    # kernel op with an operation fused behind it in the same body (the body is not just the kernel)
    kcases += [(k, (w, w, w), p) for k in ("mul", "add", "mac") for w in (8, 32) for p in ("muli_self", "addi_self", "subi_acc")]
    kcases += [("qmac", (8, 8, 32, 32, 32), p) for p in ("muli_self", "subi_acc")] + [("mac", (8, 8, 32), "muli_self")]
    kcases += [(k, (w, w, w), "yield_out") for k in ("mul", "add", "mac") for w in (8, 32)]
    # kernel ops whose operands are not the block arguments in order (the same one twice, swapped, the accumulator as a factor)
    for w in (8, 32):
        kcases += [(k, (w, w, w), None, wr) for k in ("mul", "add", "mac") for wr in ((0, 0), (1, 0), (1, 1), (2, 0))]
    kcases += [("qmac", (8, 8, 32, 32, 32), None, wr) for wr in ((0, 1, 3, 2), (1, 0, 2, 3), (0, 0, 2, 2))]
    if only in (None, "meaning"):
        chk.add_results("kernel_expansion_vs_meaning", pmap(case_kernel_meaning, kcases))
    if only in (None, "rescale"):
        chk.add_results("rescale_per_channel_parameters", pmap(case_rescale_channels, [((5, 5), (9, 9), 8), ((5, 7), (9, 9), 8), ((5, 5, 5), (9, 10, 9), 32), ((3, 4, 5, 6), (7, 8, 9, 10), 8)]))
    if only in (None, "rescale"):
        chk.add_results("rescale_expansion_vs_golden_model", pmap(case_rescale, [(dr, w) for dr in (0, 1) for w in (8, 32)]))
    cases = []
    for out_w in (8, 32):
        for clamp in (None, (-128, 127), (-100, 50)) if out_w == 8 else (None, (-1000, 1000)):
            for zp in ((0, -128), (5, 3), (-7, 0)):
                for mult, shift in ((1085889731, 37), (1073741824, 31), (3, 2)):
                    for dr in (0, 1):
                        cases.append((zp[0], zp[1], mult, shift, dr, clamp, out_w))
    if quick:
        cases = cases[:: 3]
    if only in (None, "tosa"):
        chk.add_results("tosa_rescale_to_kernel", pmap(case_tosa, cases, chunks=2))
    cases = []
    for k in ("mul", "add", "mac"):
        for ws in itertools.product((8, 16, 32, 64), repeat=3):
            cases.append((k, ws))
    for ws in itertools.product((8, 32), (8, 32), (32,), (32,), (32, 8)):
        cases.append(("qmac", ws))
    if only in (None, "dispatch"):
        chk.add_results("dispatch_type_check_finite", pmap(case_dispatch, cases, chunks=8))
    dcases = [(k, ws, None) for k, ws in cases]
    dcases += [("rescale", ws, None) for ws in itertools.product((8, 16, 32, 64), repeat=2)]
    dcases += [(k, (32, 32, 32), sgn) for k in ("mul", "add", "mac") for sgn in ("s", "u")] + [("rescale", ws, sgn) for ws in ((32, 8), (8, 32)) for sgn in ("s", "u")]
    if only in (None, "dispatch", "declared"):
        chk.add_results("supported_kernel_predicate", pmap(case_declared, dcases, chunks=8))
    chk.bounds = dict(bodies=len(bodies), widths=list(widths), rescale="symbolic parameters, out widths 8/32, double_round 0/1")
    chk.outside = ["bodies with more than 4 ops other than rewirings of the qmac body", "per-channel rescale", "float kernels",
                   "dispatch clause is enumeration, not solver-decided"]
