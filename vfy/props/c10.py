"""C10 - a tiled-strided layout means the same thing everywhere."""

from __future__ import annotations

import io
import itertools
import random

import numpy as np
import z3

from .. import irsym, sym
from ..harness import mval, replay_pinned, run_case
from ..runner import pmap
from ..sym import SymInt, eng

LEVEL = "other"


def Lambda(bounds, steps, x):
    """Reference: relative address of logical index x (z3 Int terms; bounds concrete ints; steps z3/ints).
    bounds/steps: per dim list (outermost first)."""
    tot = z3.IntVal(0)
    for d, (bs, ss) in enumerate(zip(bounds, steps)):
        for k in range(len(bs)):
            inner = int(np.prod(bs[k + 1:])) if bs[k + 1:] else 1
            dig = x[d] / inner
            if k > 0:
                dig = dig % bs[k]
            tot = tot + dig * sym.zint(ss[k])
    return tot


def Lambda_py(bounds, steps, x):
    tot = 0
    for d, (bs, ss) in enumerate(zip(bounds, steps)):
        for k in range(len(bs)):
            inner = int(np.prod(bs[k + 1:])) if bs[k + 1:] else 1
            dig = x[d] // inner
            if k > 0:
                dig %= bs[k]
            tot += dig * ss[k]
    return tot


def mk_tsl(bounds, steps, offset=0):
    from snaxc.ir.tsl import Stride, TiledStride, TiledStridedLayout

    return TiledStridedLayout([TiledStride([Stride(s, b) for s, b in zip(ss, bs)]) for bs, ss in zip(bounds, steps)],
                              offset=offset)


def sym_steps(bounds, positive=True):
    out = []
    for d, bs in enumerate(bounds):
        out.append([sym.sym(f"s{d}_{k}", 1 if positive else None, None) for k in range(len(bs))])
    return out


def model_steps(bounds, m):
    return [[mval(m, f"s{d}_{k}", 1) for k in range(len(bs))] for d, bs in enumerate(bounds)]


def sym_index(bounds):
    x = []
    for d, bs in enumerate(bounds):
        v = z3.Int(f"x{d}")
        eng().assume(z3.And(v >= 0, v < int(np.prod(bs))))
        x.append(v)
    return x


# ---------------------------------------------------------------- (1) affine map, (3) canonicalize


def case_map_canon(bounds):
    from snaxc.dialects.tsl import TiledStridedLayoutAttr

    def fn():
        steps = sym_steps(bounds)
        x = sym_index(bounds)
        tsl = mk_tsl(bounds, steps, offset=sym.sym("off"))
        ref = Lambda(bounds, steps, x)
        am = TiledStridedLayoutAttr(tsl).get_affine_map()
        got = am.eval([SymInt(v) for v in x], [])
        eng().oblige("affine_map:eval", z3.BoolVal(len(got) == 1))
        eng().oblige("affine_map:eval", sym.zint(got[0]) == ref)
        c = tsl.canonicalize()
        cb = [[s.bound for s in ts.strides] for ts in c.tstrides]
        cs = [[s.step for s in ts.strides] for ts in c.tstrides]
        okb = all(isinstance(b, int) and not isinstance(b, SymInt) for bs in cb for b in bs)
        if not okb:
            raise sym.Unsupported("symbolic canonical bound")
        for d in range(len(bounds)):
            eng().oblige("canonicalize:total_bound", z3.BoolVal(int(np.prod(cb[d])) == int(np.prod(bounds[d]))),
                         dict(bounds=bounds, canon=cb))
        if all(int(np.prod(cb[d])) == int(np.prod(bounds[d])) for d in range(len(bounds))):
            eng().oblige("canonicalize:lambda", Lambda(cb, cs, x) == ref, dict(bounds=bounds, canon=cb))
        eng().oblige("canonicalize:offset", sym.zint(c.offset) == z3.Int("off"))
        c2 = c.canonicalize()
        same = [z3.BoolVal([len(t.strides) for t in c2.tstrides] == [len(t.strides) for t in c.tstrides])]
        if z3.is_true(same[0]):
            for t1, t2 in zip(c.tstrides, c2.tstrides):
                for a, b in zip(t1.strides, t2.strides):
                    same.append(sym.zint(a.step) == sym.zint(b.step))
                    same.append(sym.zint(a.bound) == sym.zint(b.bound))
        eng().oblige("canonicalize:idempotent", z3.And(same))
        # canonicalising is a query: the layout it was called on still is the layout it was
        rb = [[s.bound for s in ts.strides] for ts in tsl.tstrides]
        rs = [[s.step for s in ts.strides] for ts in tsl.tstrides]
        eng().oblige("canonicalize:receiver_unchanged", z3.BoolVal(rb == [list(b) for b in bounds]), dict(bounds=bounds, after=str(rb)))
        if rb == [list(b) for b in bounds]:
            eng().oblige("canonicalize:receiver_unchanged", z3.And([sym.zint(a) == sym.zint(b) for ra, sa in zip(rs, steps) for a, b in zip(ra, sa)] or [z3.BoolVal(True)]))

    def replay(f):
        m = f["model"]
        steps = model_steps(bounds, m)
        x = [mval(m, f"x{d}") for d in range(len(bounds))]
        tsl = mk_tsl(bounds, steps, offset=mval(m, "off"))
        ref = Lambda_py(bounds, steps, x)
        got = TiledStridedLayoutAttr(tsl).get_affine_map().eval(x, [])[0]
        c = tsl.canonicalize()
        cb = [[s.bound for s in ts.strides] for ts in c.tstrides]
        cs = [[s.step for s in ts.strides] for ts in c.tstrides]
        bad = []
        if got != ref:
            bad.append(f"affine map {got} != {ref}")
        if [int(np.prod(b)) for b in cb] != [int(np.prod(b)) for b in bounds]:
            bad.append(f"total bounds {cb}")
        elif Lambda_py(cb, cs, x) != ref:
            bad.append(f"canonical layout {c} addr {Lambda_py(cb, cs, x)} != {ref}")
        if c.canonicalize() != c:
            bad.append("not idempotent")
        if c.offset != tsl.offset:
            bad.append("offset")
        if [[s.bound for s in ts.strides] for ts in tsl.tstrides] != [list(b) for b in bounds] or [[s.step for s in ts.strides] for ts in tsl.tstrides] != [list(ss) for ss in steps]:
            bad.append(f"canonicalize changed the layout it was called on: now {tsl}")
        return bool(bad), f"tsl={tsl} x={x}: {bad}"

    return run_case(fn, replay, witness=True, sample=dict(bounds=bounds), key=str(bounds))


# ---------------------------------------------------------------- (2) from_strides


def case_from_strides(bounds):
    from snaxc.ir.tsl import TiledStridedLayout

    def fn():
        strides = [sym.sym(f"st{d}", 1, None) for d in range(len(bounds))]
        x = sym_index(bounds)
        tsl = TiledStridedLayout.from_strides(strides, [list(b) for b in bounds], offset=sym.sym("off"))
        gb = [[s.bound for s in ts.strides] for ts in tsl.tstrides]
        gs = [[s.step for s in ts.strides] for ts in tsl.tstrides]
        eng().oblige("from_strides:bounds", z3.BoolVal(gb == [list(b) for b in bounds]))
        if any(s is None for ss in gs for s in ss):
            eng().oblige("from_strides:static", False)
            return
        plain = sum((x[d] * strides[d].z for d in range(len(bounds))), z3.IntVal(0))
        eng().oblige("from_strides:lambda", Lambda(bounds, gs, x) == plain)
        eng().oblige("from_strides:offset", sym.zint(tsl.offset) == z3.Int("off"))

    def replay(f):
        m = f["model"]
        strides = [mval(m, f"st{d}", 1) for d in range(len(bounds))]
        x = [mval(m, f"x{d}") for d in range(len(bounds))]
        tsl = TiledStridedLayout.from_strides(strides, [list(b) for b in bounds], offset=mval(m, "off"))
        gs = [[s.step for s in ts.strides] for ts in tsl.tstrides]
        gb = [[s.bound for s in ts.strides] for ts in tsl.tstrides]
        if gb != [list(b) for b in bounds] or any(s is None for ss in gs for s in ss):
            return True, f"{tsl}"
        a, b = Lambda_py(bounds, gs, x), sum(xi * s for xi, s in zip(x, strides))
        return a != b or tsl.offset != mval(m, "off"), f"strides={strides} tsl={tsl} x={x} {a} vs {b}"

    return run_case(fn, replay, witness=True, sample=dict(bounds=bounds), key=str(bounds))


# ---------------------------------------------------------------- (4) largest common contiguous block


def case_lccb(case):
    """Two layouts with the same tile bounds; steps of `a` symbolic; `b` differs from `a` in an enumerated set
    of positions (fresh symbolic steps there).  starting stride symbolic >= 1."""
    bounds, diff = case

    def build(get):
        sa = [[get(f"s{d}_{k}") for k in range(len(bs))] for d, bs in enumerate(bounds)]
        sb = [[get(f"r{d}_{k}") if (d, k) in diff else sa[d][k] for k in range(len(bs))] for d, bs in enumerate(bounds)]
        return sa, sb

    def check(a, b, res, start, eq, mul):
        """returns list of (name, condition)"""
        pos = {}
        for d, k, s in a:
            pos[id(s)] = (d, k)
        out = []
        prev = None
        if len(res) == 1 and id(res[0]) not in pos:
            # default block: a single element
            out.append(("lccb:default", eq(res[0].step, start) and True))
            out.append(("lccb:default_bound", res[0].bound == 1))
            return out
        for s in res:
            if id(s) not in pos:
                out.append(("lccb:member", False))
                return out
            d, k = pos[id(s)]
            o = b.get_stride(d, k)
            out.append(("lccb:shared_step", eq(o.step, s.step)))
            out.append(("lccb:shared_bound", o.bound == s.bound))
            if prev is None:
                out.append(("lccb:first_step", eq(s.step, start)))
            else:
                out.append(("lccb:chained", eq(s.step, mul(prev.step, prev.bound))))
            prev = s
        return out

    def fn():
        sa, sb = build(lambda nm: sym.sym(nm, 1, None))
        start = sym.sym("start", 1, None)
        a, b = mk_tsl(bounds, sa), mk_tsl(bounds, sb)
        res = a.largest_common_contiguous_block(b, start)
        eng().oblige("lccb:nonempty", z3.BoolVal(len(res) >= 1))
        for nm, c in check(a, b, res, start, lambda p, q: sym.zint(p) == sym.zint(q), lambda p, q: p * q):
            eng().oblige(nm, c if not isinstance(c, sym.SymBool) else c.z)

    def replay(f):
        m = f["model"]
        sa, sb = build(lambda nm: mval(m, nm, 1))
        start = mval(m, "start", 1)
        a, b = mk_tsl(bounds, sa), mk_tsl(bounds, sb)
        res = a.largest_common_contiguous_block(b, start)
        bad = [nm for nm, c in check(a, b, res, start, lambda p, q: p == q, lambda p, q: p * q) if not c]
        return bool(bad), f"a={a} b={b} start={start} lccb={[str(s) for s in res]}: {bad}"

    return run_case(fn, replay, witness=True, sample=dict(bounds=bounds, differing=sorted(diff)), key=str(case), max_paths=400)


# ---------------------------------------------------------------- (7) numpy enumeration views vs solver


def case_enum(case):
    bounds, steps = case

    def fn():
        tsl = mk_tsl(bounds, steps)
        vals = tsl.all_values()
        overl = bool(tsl.self_overlaps())
        dense = bool(tsl.is_dense())
        n = int(np.prod([np.prod(b) for b in bounds]))
        eng().oblige("all_values:count", z3.BoolVal(len(vals) == n))
        # solver verdicts on Lambda
        x = sym_index(bounds)
        y = [z3.Int(f"y{d}") for d in range(len(bounds))]
        for d, bs in enumerate(bounds):
            eng().assume(z3.And(y[d] >= 0, y[d] < int(np.prod(bs))))
        lx, ly = Lambda(bounds, steps, x), Lambda(bounds, steps, y)
        E = eng()
        r_over = E.sat(z3.Or([a != b for a, b in zip(x, y)]), lx == ly)
        if r_over == "unknown":
            E.stats.inconclusive += 1
        else:
            E.oblige("self_overlaps:agrees_with_solver", z3.BoolVal((r_over == "sat") == overl),
                     dict(solver=r_over, numpy=overl))
        # every enumerated value is an address of some index and vice versa: membership of Lambda(x) in all_values
        E.oblige("all_values:contains_lambda", z3.Or([lx == int(v) for v in sorted(set(vals.tolist()))]))
        # multiset: value v appears as often as indices map to it -- via count of distinct addresses when no overlap
        mx = int(np.max(vals))
        r_gap = "unsat"
        if not overl:
            # dense iff max == n-1 (given injective)
            E.oblige("is_dense:agrees", z3.BoolVal(dense == (mx == n - 1)))
            E.oblige("all_values:max", lx <= mx)
        else:
            E.oblige("is_dense:overlap_not_dense", z3.BoolVal(dense is False))

    def replay(f):
        tsl = mk_tsl(bounds, steps)
        vals = sorted(tsl.all_values().tolist())
        ref = sorted(Lambda_py(bounds, steps, x) for x in itertools.product(*[range(int(np.prod(b))) for b in bounds]))
        overl = len(set(ref)) != len(ref)
        dense = (not overl) and max(ref) == len(ref) - 1
        bad = vals != ref or bool(tsl.self_overlaps()) != overl or bool(tsl.is_dense()) != dense
        return bad, f"tsl={tsl} all_values={vals[:10]} ref={ref[:10]} overlaps={tsl.self_overlaps()}/{overl} dense={tsl.is_dense()}/{dense}"

    return run_case(fn, replay, sample=dict(bounds=bounds, steps=steps), key=str(case))


# ---------------------------------------------------------------- (8) print -> parse


def case_print(case):
    from xdsl.parser import Parser
    from xdsl.printer import Printer

    from snaxc.dialects.tsl import TiledStridedLayoutAttr
    from .. import xshim

    ctx = xshim.make_ctx()
    bounds, dyn, offkind = case[:3]  # dyn: set of (d,k,'b'|'s') that are dynamic (None); offkind: zero/pos/neg/dyn
    zero = case[3] if len(case) > 3 else frozenset()  # steps that are a static 0 (a broadcast dimension / tile level)

    def build(get):
        bs = [[None if (d, k, "b") in dyn else b for k, b in enumerate(bd)] for d, bd in enumerate(bounds)]
        ss = [[None if (d, k, "s") in dyn else 0 if (d, k) in zero else get(f"s{d}_{k}") for k in range(len(bd))] for d, bd in enumerate(bounds)]
        off = None if offkind == "dyn" else get("off")
        return mk_tsl(bs, ss, off)

    def roundtrip(attr):
        s = io.StringIO()
        Printer(stream=s).print_attribute(attr)
        txt = s.getvalue()
        return txt, Parser(ctx, txt).parse_attribute()

    def fn():
        def get(nm):
            v = sym.sym(nm)
            if nm == "off":
                eng().assume({"zero": v.z == 0, "pos": v.z > 0, "neg": v.z < 0}[offkind])
            else:
                eng().assume(v.z >= 1)
                # two classes of representatives: small and large
                eng().branch(v.z < 1000)
            return eng().concretise(v)

        a = TiledStridedLayoutAttr(build(get))
        try:
            txt, b = roundtrip(a)
        except Exception as e:
            eng().oblige("tsl:print_parse", False, dict(error=str(e)[:200], tsl=str(a.data)))
            return
        eng().oblige("tsl:print_parse", z3.BoolVal(a.data == b.data), dict(text=txt))

    def replay(f):
        a = TiledStridedLayoutAttr(build(lambda nm: mval(f["model"], nm, 1)))
        try:
            txt, b = roundtrip(a)
        except Exception as e:
            return True, f"{a.data}: parse error {str(e)[:200]}"
        return a.data != b.data, f"{txt} -> {b.data}"

    def sig(f, v):
        return "tsl:print_parse:" + ("dynamic_offset" if offkind == "dyn" else "static_offset") + ("|static_step_0" if zero else "")

    return run_case(fn, replay, witness=True, signature=sig, sample=dict(bounds=bounds, dynamic=sorted(dyn), offset=offkind),
                    key=str(case), max_paths=64)


# ---------------------------------------------------------------- (5b) get_step_ops on a strided memref


def case_strided_steps(case):
    """get_step_ops(bound_ops, memref_value, in_bytes) for a layout built by from_strides from a memref with a
    StridedLayoutAttr whose strides are only known at run time (extract_strided_metadata branch, as snax-copy-to-dma
    calls it): the step of tile level k of such a dimension is run-time stride * element size * product of the
    inner tile bounds."""
    from xdsl.dialects import test
    from xdsl.dialects.builtin import IntegerType, MemRefType, NoneAttr, StridedLayoutAttr
    from xdsl.dialects.builtin import IndexType

    from snaxc.dialects.tsl import TiledStridedLayoutAttr
    from snaxc.ir.tsl.tiled_strided_layout import TiledStridedLayout

    bounds, dyn_dims, elw, in_bytes = case
    rank = len(bounds)
    shape = [int(np.prod(b)) for b in bounds]
    static = []
    acc = 1
    for d in reversed(range(rank)):
        static.insert(0, acc)
        acc *= shape[d]
    strides = [None if d in dyn_dims else static[d] for d in range(rank)]

    def fn():
        E = eng()
        mt = MemRefType(IntegerType(elw), shape, StridedLayoutAttr(strides, None))
        src = test.TestOp(result_types=[mt])
        attr = TiledStridedLayoutAttr(TiledStridedLayout.from_strides(strides, [list(b) for b in bounds], None))
        shapes = [test.TestOp(result_types=[IndexType()]) for _ in bounds]
        bops, bmap = attr.get_bound_ops(list(shapes))
        sops, smap = attr.get_step_ops(bmap, src.res[0], in_bytes=in_bytes)
        I = irsym.Interp(intmode=True)
        for d, sh in enumerate(shapes):
            I.set(sh.res[0], z3.IntVal(shape[d]))
        S = [z3.Int(f"S{d}") for d in range(rank)]
        for v in S:
            E.assume(v >= 1)

        def h_meta(I, op):
            res = list(op.results)
            I.set(res[0], irsym.Opaque("base_buffer"))
            I.set(res[1], z3.Int("rt_offset"))
            for d in range(rank):
                I.set(res[2 + d], z3.IntVal(shape[d]))
                I.set(res[2 + rank + d], S[d] if d in dyn_dims else z3.IntVal(static[d]))

        I.handlers["memref.extract_strided_metadata"] = h_meta
        for op in bops + sops:
            I.run_op(op)
        rs = {k: I.get(o.results[0]) for k, o in smap.items()}
        el = elw // 8
        E.oblige("strided_step_ops:keys", z3.BoolVal(sorted(rs) == sorted((d, k) for d, bd in enumerate(bounds) for k in range(len(bd)))))
        for (d, k), v in rs.items():
            inner = int(np.prod(bounds[d][k + 1:])) if bounds[d][k + 1:] else 1
            if d in dyn_dims:
                # the branch multiplies the run-time stride by the element size itself
                E.oblige("strided_step_ops:dynamic_stride_times_inner_tile_sizes", v == S[d] * el * inner, dict(pos=(d, k), in_bytes=in_bytes))
            else:
                E.oblige("strided_step_ops:static_value", v == static[d] * inner * (el if in_bytes else 1), dict(pos=(d, k), in_bytes=in_bytes))
        E.oblige("explored", True)

    return run_case(fn, lambda f: replay_pinned(fn, f), signature=lambda f, v: f["name"], sample=dict(case=str(case)), key=str(case))


# ---------------------------------------------------------------- (5) get_bound_ops / get_step_ops


def case_ops(case):
    """Emitted bound/step IR evaluated by Layer I.  Static entries symbolic holes (steps), dynamic outermost
    bound resolved from a symbolic memref size.  bounds: inner bounds concrete; dyn dims: outermost bound None."""
    from xdsl.dialects import test
    from xdsl.dialects.builtin import IndexType

    from snaxc.dialects.tsl import TiledStridedLayoutAttr

    bounds, dyn_dims, in_bytes = case

    def build(get):
        bs = [[None if (k == 0 and d in dyn_dims) else b for k, b in enumerate(bd)] for d, bd in enumerate(bounds)]
        ss = [[None if (k == 0 and d in dyn_dims) else get(f"s{d}_{k}") for k in range(len(bd))] for d, bd in enumerate(bounds)]
        return bs, ss, TiledStridedLayoutAttr(mk_tsl(bs, ss))

    def emit(attr):
        shapes = [test.TestOp(result_types=[IndexType()]) for _ in bounds]
        bops, bmap = attr.get_bound_ops(list(shapes))
        sops, smap = attr.get_step_ops(bmap)
        return shapes, bops + sops, bmap, smap

    def fn():
        bs, ss, attr = build(lambda nm: sym.sym(nm, 1, None))
        shapes, ops, bmap, smap = emit(attr)
        I = irsym.Interp(intmode=True)
        sizes = []
        for d, sh in enumerate(shapes):
            q = z3.Int(f"q{d}")  # outermost trip count
            eng().assume(q >= 1)
            inner = int(np.prod(bounds[d][1:])) if bounds[d][1:] else 1
            n = q * inner if d in dyn_dims else z3.IntVal(int(np.prod(bounds[d])))
            sizes.append(n)
            I.set(sh.res[0], n)
        for op in ops:
            I.run_op(op)
        rb = {k: I.get(o.results[0]) for k, o in bmap.items()}
        rs = {k: I.get(o.results[0]) for k, o in smap.items()}
        E = eng()
        E.oblige("bound_ops:keys", z3.BoolVal(sorted(rb) == sorted((d, k) for d, bd in enumerate(bounds) for k in range(len(bd)))))
        E.oblige("step_ops:keys", z3.BoolVal(sorted(rs) == sorted(rb)))
        for (d, k), v in rb.items():
            exp = z3.Int(f"q{d}") if (k == 0 and d in dyn_dims) else z3.IntVal(bounds[d][k])
            E.oblige("bound_ops:value", v == exp, dict(pos=(d, k)))
        # coverage: product of resolved bounds equals the run-time size
        for d in range(len(bounds)):
            p = z3.IntVal(1)
            for k in range(len(bounds[d])):
                p = p * (z3.Int(f"q{d}") if (k == 0 and d in dyn_dims) else z3.IntVal(bounds[d][k]))
            E.oblige("bound_ops:covers_shape", p == sizes[d])
        for (d, k), v in rs.items():
            if ss[d][k] is not None:
                E.oblige("step_ops:static_value", v == ss[d][k].z, dict(pos=(d, k)))
        # dynamic steps: contiguity contract from the docstring: assigned right-to-left, the first dynamic step is
        # (largest static step) * (its bound), each further one is previous dynamic step * its resolved bound
        dyn = [(d, 0) for d in reversed(range(len(bounds))) if d in dyn_dims]
        if dyn and all(k in rs for k in dyn):
            # resolved dynamic steps must not collide with the static footprint: step >= max over static strides of
            # step*bound, and successive dynamic steps chain
            statics = [(d, k) for d, bd in enumerate(bounds) for k in range(len(bd)) if ss[d][k] is not None]
            first = rs[dyn[0]]
            for (d, k) in statics:
                E.oblige("step_ops:dynamic_ge_static_extent", first >= ss[d][k].z, dict(pos=(d, k)))
            prev = dyn[0]
            for cur in dyn[1:]:
                E.oblige("step_ops:dynamic_chain", rs[cur] == rs[prev] * rb[prev])
                prev = cur

    def replay(f):
        m = f["model"]
        bs, ss, attr = build(lambda nm: mval(m, nm, 1))
        shapes, ops, bmap, smap = emit(attr)
        I = irsym.Interp(W=64)
        sizes = []
        for d, sh in enumerate(shapes):
            inner = int(np.prod(bounds[d][1:])) if bounds[d][1:] else 1
            n = mval(m, f"q{d}", 1) * inner if d in dyn_dims else int(np.prod(bounds[d]))
            sizes.append(n)
            I.set(sh.res[0], z3.BitVecVal(n, 64))
        for op in ops:
            I.run_op(op)
        rb = {k: irsym.bvval(I.get(o.results[0])) for k, o in bmap.items()}
        rs = {k: irsym.bvval(I.get(o.results[0])) for k, o in smap.items()}
        bad = []
        for (d, k), v in rb.items():
            exp = mval(m, f"q{d}", 1) if (k == 0 and d in dyn_dims) else bounds[d][k]
            if v != exp:
                bad.append(f"bound{(d, k)}={v} expected {exp}")
        for (d, k), v in rs.items():
            if ss[d][k] is not None and v != ss[d][k]:
                bad.append(f"step{(d, k)}={v} expected {ss[d][k]}")
        dyn = [(d, 0) for d in reversed(range(len(bounds))) if d in dyn_dims]
        if dyn and all(k in rs for k in dyn):
            for d, bd in enumerate(bounds):
                for k in range(len(bd)):
                    if ss[d][k] is not None and rs[dyn[0]] < ss[d][k]:
                        bad.append(f"dynamic step {rs[dyn[0]]} < static step {ss[d][k]}")
            for p, c in zip(dyn, dyn[1:]):
                if rs[c] != rs[p] * rb[p]:
                    bad.append("dynamic chain")
        if sorted(rs) != sorted(rb):
            bad.append("keys")
        return bool(bad), f"tsl={attr.data} sizes={sizes} bounds={rb} steps={rs}: {bad}"

    return run_case(fn, replay, witness=True, sample=dict(bounds=bounds, dynamic_dims=sorted(dyn_dims)), key=str(case))


# ---------------------------------------------------------------- (6) memref-to-arith subview pointer


def case_subview(case):
    """subview of a TSL memref with dynamic offsets -> pointer arithmetic.  Offsets are multiples of the inner
    tile product (tile-aligned subviews: the form tiling produces; stated precondition)."""
    from xdsl.dialects import builtin, func, memref, test
    from xdsl.dialects.builtin import IndexType, MemRefType, ModuleOp, i8, i32, i64
    from xdsl.ir import Block, Region

    from snaxc.dialects.tsl import TiledStridedLayoutAttr
    from snaxc.transforms.convert_memref_to_arith import ConvertMemrefToArithPass
    from .. import xshim

    bounds, elt, dynmask = case[:3]
    chain = len(case) > 3 and case[3]  # pointer of a subview of a subview: both offsets count
    stat = case[4] if len(case) > 4 else [0] * len(bounds)  # static offsets (in outer tiles) of the dimensions that are not run-time values
    ety = {8: i8, 32: i32, 64: i64}[elt]
    shape = [int(np.prod(b)) for b in bounds]

    def build(get):
        ss = [[get(f"s{d}_{k}") for k in range(len(bd))] for d, bd in enumerate(bounds)]
        attr = TiledStridedLayoutAttr(mk_tsl(bounds, ss))
        mt = MemRefType(ety, shape, layout=attr)
        src = test.TestOp(result_types=[mt])
        offs = [test.TestOp(result_types=[IndexType()]) if dynmask[d] else None for d in range(len(bounds))]
        inner_of = lambda d: int(np.prod(bounds[d][1:])) if bounds[d][1:] else 1
        static_offs = [memref.DYNAMIC_INDEX if dynmask[d] else stat[d] * inner_of(d) for d in range(len(bounds))]
        sizes = [1] * len(bounds)
        res_t = MemRefType(ety, sizes, layout=builtin.StridedLayoutAttr([None] * len(bounds), None))
        pre = []
        cur = src.res[0]
        offs1 = []
        if chain:
            # outer subview keeps the tiled layout (half the outer tiles), as tiling twice produces
            b1 = [[max(1, bd[0] // 2)] + list(bd[1:]) for bd in bounds]
            t1 = MemRefType(ety, [int(np.prod(b)) for b in b1], layout=TiledStridedLayoutAttr(mk_tsl(b1, ss)))
            offs1 = [test.TestOp(result_types=[IndexType()]) if dynmask[d] else None for d in range(len(bounds))]
            sv1 = memref.SubviewOp(cur, [o.res[0] for o in offs1 if o], [], [], static_offs, [int(np.prod(b)) for b in b1],
                                   [1] * len(bounds), t1)
            pre = [o for o in offs1 if o] + [sv1]
            cur = sv1.result
        sv = memref.SubviewOp(cur, [o.res[0] for o in offs if o], [], [], static_offs, sizes, [1] * len(bounds), res_t)
        ptr = memref.ExtractAlignedPointerAsIndexOp.get(sv.result)
        use = test.TestOp(operands=[ptr.aligned_pointer])
        ops = [src] + pre + [o for o in offs if o] + [sv, ptr, use, func.ReturnOp()]
        m = ModuleOp([func.FuncOp("f", ((), ()), Region(Block(ops)))])
        return ss, m, src, (offs, offs1), use

    def execute(m, src, offs2, use, base, offvals, intmode=True, offvals1=None):
        I = irsym.Interp(W=32, intmode=intmode)
        offs, offs1 = offs2

        def h_test(I, op):
            if op is src:
                I.set(op.res[0], irsym.Opaque("memref", base=base))
            elif op in offs:
                I.set(op.res[0], offvals[offs.index(op)])
            elif op in offs1:
                I.set(op.res[0], offvals1[offs1.index(op)])
            else:
                I.emit("use", I.get(op.operands[0]))

        def h_ptr(I, op):
            v = I.get(op.source)
            I.set(op.results[0], v.base)

        def h_subview(I, op):
            # memref semantics: a view shares the aligned pointer of its source, its offset lives in the descriptor
            I.set(op.result, irsym.Opaque("subview", base=I.get(op.source).base))

        I.handlers.update({"test.op": h_test, "memref.extract_aligned_pointer_as_index": h_ptr,
                           "memref.subview": h_subview})
        I.run_func(irsym.module_funcs(m)[0], [])
        return I.events

    def fn():
        ss, m, src, offs, use = build(lambda nm: sym.sym(nm, 1, None))
        ConvertMemrefToArithPass().apply(xshim.make_ctx(), m)
        base = z3.Int("base")
        eng().assume(base >= 0)
        offvals, offvals1 = {}, {}
        x = []
        for d in range(len(bounds)):
            inner = int(np.prod(bounds[d][1:])) if bounds[d][1:] else 1
            if dynmask[d]:
                t = z3.Int(f"t{d}")
                eng().assume(z3.And(t >= 0, t < bounds[d][0]))
                if chain:
                    u = z3.Int(f"u{d}")
                    eng().assume(z3.And(u >= 0, t + u < bounds[d][0]))
                    offvals1[d] = u * inner
                    x.append((t + u) * inner)
                else:
                    x.append(t * inner)
                offvals[d] = t * inner
            else:
                x.append(z3.IntVal(stat[d] * inner * (2 if chain else 1)))
        ev = execute(m, src, offs, use, base, [offvals.get(d) for d in range(len(bounds))],
                     offvals1=[offvals1.get(d) for d in range(len(bounds))])
        eng().oblige("subview_ptr:lowered", z3.BoolVal(len(ev) == 1))
        if len(ev) == 1:
            exp = base + Lambda(bounds, ss, x) * (elt // 8)
            eng().oblige("subview_ptr:address", ev[0][1] == exp)

    def replay(f):
        mm = f["model"]
        ss, m, src, offs, use = build(lambda nm: mval(mm, nm, 1))
        ConvertMemrefToArithPass().apply(xshim.make_ctx(), m)
        x, offvals, offvals1 = [], {}, {}
        for d in range(len(bounds)):
            inner = int(np.prod(bounds[d][1:])) if bounds[d][1:] else 1
            if dynmask[d]:
                offvals[d] = z3.BitVecVal(mval(mm, f"t{d}") * inner, 32)
                u = mval(mm, f"u{d}") if chain else 0
                offvals1[d] = z3.BitVecVal(u * inner, 32)
                x.append((mval(mm, f"t{d}") + u) * inner)
            else:
                x.append(stat[d] * inner * (2 if chain else 1))
        base = mval(mm, "base")
        ev = execute(m, src, offs, use, z3.BitVecVal(base, 32), [offvals.get(d) for d in range(len(bounds))], False,
                     offvals1=[offvals1.get(d) for d in range(len(bounds))])
        got = irsym.bvval(ev[0][1]) if len(ev) == 1 else None
        exp = (base + Lambda_py(bounds, ss, x) * (elt // 8)) % 2 ** 32
        return got != exp, f"bounds={bounds} steps={ss} offsets={x} ptr={got} expected={exp}"

    return run_case(fn, replay, witness=True, sample=dict(bounds=bounds, elt=elt, dynamic=dynmask, chain=bool(chain), static_tiles=list(stat)), key=str(case))


# ---------------------------------------------------------------- driver


def tile_structs(rank, max_depth, bvals):
    per_dim = []
    for depth in range(1, max_depth + 1):
        per_dim += [list(b) for b in itertools.product(bvals, repeat=depth)]
    return [list(c) for c in itertools.product(per_dim, repeat=rank)]


def run(chk):
    quick = chk.tier == "quick"
    rnd = random.Random(chk.seed)
    only = getattr(chk, "only", None)
    chk.functions = [
        "snaxc.dialects.tsl.TiledStridedLayoutAttr.get_affine_map/get_bound_ops/get_step_ops/print/parse",
        "snaxc.ir.tsl.TiledStride.from_stride/canonicalize", "snaxc.ir.tsl.TiledStridedLayout.from_strides/"
        "canonicalize/all_values/self_overlaps/is_dense/largest_common_contiguous_block",
        "snaxc.parser.tsl_parser.TSLParser", "snaxc.transforms.convert_memref_to_arith.LowerExtractAlignedPointerOp",
        "xdsl AffineMap.eval, PatternRewriteWalker (executed, trusted)",
    ]
    chk.explanation = (
        "The real TSL classes are executed with z3-backed int proxies: steps, offset, starting stride, indices and "
        "run-time sizes are symbolic (unbounded unless stated); tile bounds become divisors and are enumerated "
        "concretely. Every view (affine map, canonical form, from_strides, common contiguous block, emitted "
        "bound/step IR, subview pointer IR) is compared with one reference function Lambda(x) = sum digit*step by "
        "unsat queries. numpy enumeration views and print/parse are run on concrete/representative layouts and "
        "compared with the solver's verdict (not a for-all claim for those two).")
    chk.assumptions = [
        "Lambda is the relative address (the layout offset is carried separately by every view; canonicalize/"
        "from_strides/print-parse must preserve it)",
        "steps positive; tile bounds from the enumerated set; indices inside the shape",
        "dynamic sizes are multiples of the inner tile product, >= 1 tile (documented TSL contract)",
        "subview offsets (run-time values and constants) are multiples of the inner tile product (tile-aligned subviews)",
        "xdsl 0.70.0 + import shim",
    ]
    bv = (1, 2, 3) if quick else (1, 2, 3, 4)
    structs = tile_structs(1, 3, bv) + tile_structs(2, 2, bv)
    if not quick:
        structs += [s for s in tile_structs(3, 2, (1, 2, 3)) if rnd.random() < 0.15]
        structs += [s for s in tile_structs(2, 3, (1, 2, 3)) if rnd.random() < 0.3]
        structs += [s for s in tile_structs(4, 1, (1, 2, 3))]
    if only in (None, "map"):
        chk.add_results("affine_map_and_canonicalize", pmap(case_map_canon, structs, chunks=4))
    if only in (None, "from"):
        chk.add_results("from_strides", pmap(case_from_strides, structs, chunks=4))
    chk.bounds["tile_structures"] = dict(n=len(structs), rank="1..2 quick / ..4 thorough", depth="<=3", tile_bounds=list(bv))
    # lccb
    cases = []
    small = tile_structs(1, 3, (1, 2)) + tile_structs(2, 2, (1, 2)) + ([] if quick else tile_structs(2, 2, (2, 3)))
    for b in small:
        pos = [(d, k) for d, bd in enumerate(b) for k in range(len(bd))]
        cases.append((b, frozenset()))
        for p in pos:
            cases.append((b, frozenset([p])))
        if not quick:
            for p, q in itertools.combinations(pos, 2):
                cases.append((b, frozenset([p, q])))
    if quick and len(cases) > 150:
        cases = cases[:60] + rnd.sample(cases[60:], 90)
    if only in (None, "lccb"):
        chk.add_results("largest_common_contiguous_block", pmap(case_lccb, cases, chunks=2))
    # enumeration views: concrete layouts
    cases = []
    for b in tile_structs(1, 2, (1, 2, 3)) + tile_structs(2, 2, (1, 2, 3))[:: (7 if quick else 2)]:
        for _ in range(2 if quick else 4):
            steps = [[rnd.choice((1, 2, 3, 4, 6, 8, 16)) for _ in bd] for bd in b]
            cases.append((b, steps))
        # a dense row-major one
        flat = [(d, k) for d, bd in enumerate(b) for k in range(len(bd))]
        st, acc = [[0] * len(bd) for bd in b], 1
        for d, k in reversed(flat):
            st[d][k] = acc
            acc *= b[d][k]
        cases.append((b, st))
    # solver-chosen adversaries: layouts that overlap themselves although their largest address is N-1 (where
    # "spans exactly N addresses" and "dense" part company); up to 3 step assignments per structure, independent of the seed
    for b in ([[3], [3]], [[4], [4]], [[3, 3]], [[2], [2], [2]], [[2, 3]], [[4], [3]], [[2, 2], [3]], [[3], [2, 2]], [[5], [2]], [[2, 4]]):
        flat = [bb for bd in b for bb in bd]
        sv = [z3.Int(f"s{i}") for i in range(len(flat))]
        xs = [z3.Int(f"x{i}") for i in range(len(flat))]
        ys = [z3.Int(f"y{i}") for i in range(len(flat))]
        so = z3.Solver()
        so.add(*[z3.And(v >= 1, v <= 8) for v in sv])
        so.add(*[z3.And(x >= 0, x < bb, y >= 0, y < bb) for x, y, bb in zip(xs, ys, flat)])
        so.add(z3.Or([x != y for x, y in zip(xs, ys)]), sum(v * x for v, x in zip(sv, xs)) == sum(v * y for v, y in zip(sv, ys)))
        so.add(sum(v * (bb - 1) for v, bb in zip(sv, flat)) == int(np.prod(flat)) - 1)
        for _ in range(3):
            if str(so.check()) != "sat":
                break
            md = so.model()
            vals_ = [md.eval(v, model_completion=True).as_long() for v in sv]
            it = iter(vals_)
            cases.append((b, [[next(it) for _ in bd] for bd in b]))
            so.add(z3.Or([v != c for v, c in zip(sv, vals_)]))
    if only in (None, "enum"):
        chk.add_results("enumeration_views_vs_solver", pmap(case_enum, cases, chunks=2))
    # print/parse
    cases = []
    for b in ([[2]], [[2, 4]], [[2, 4], [2, 4]], [[3], [2, 2, 2]]):
        pos = [(d, k) for d, bd in enumerate(b) for k in range(len(bd))]
        for off in ("zero", "pos", "neg", "dyn"):
            cases.append((b, frozenset(), off))
            cases.append((b, frozenset([(d, 0, "b") for d in range(len(b))] + [(d, 0, "s") for d in range(len(b))]), off))
            cases.append((b, frozenset([(0, 0, "b")]), off))
    for b, zs in (([[2, 4]], [(0, 1)]), ([[2, 4]], [(0, 0)]), ([[2, 4], [2, 4]], [(0, 0), (0, 1)]), ([[4], [8]], [(0, 0)])):
        cases.append((b, frozenset(), "zero", frozenset(zs)))
        cases.append((b, frozenset(), "pos", frozenset(zs)))
    if only in (None, "print"):
        chk.add_results("print_parse", pmap(case_print, cases))
    # bound/step ops
    cases = []
    for b in tile_structs(1, 3, (2, 3)) + tile_structs(2, 2, (2, 3)) + ([] if quick else tile_structs(3, 2, (2,))):
        dims = range(len(b))
        for r in range(0, len(b) + 1):
            for dd in itertools.combinations(dims, r):
                cases.append((b, frozenset(dd), False))
    if quick and len(cases) > 120:
        cases = rnd.sample(cases, 120)
    if only in (None, "ops"):
        chk.add_results("bound_and_step_ops", pmap(case_ops, cases, chunks=2))
        scases = []
        for bounds in ([[4], [8]], [[2, 2], [8]], [[2, 2], [2, 4]], [[4], [2, 4]], [[2, 2, 2], [4]], [[3], [2, 2], [4]]):
            for dyn in ({0}, {0, 1}) + (({1},) if len(bounds) > 1 else ()):
                for elw in (8, 32):
                    scases.append((bounds, frozenset(d for d in dyn if d < len(bounds)), elw, True))
        chk.add_results("step_ops_on_strided_memref", pmap(case_strided_steps, scases, chunks=2))
    # subview
    cases = []
    for b in tile_structs(1, 2, (2, 4)) + tile_structs(2, 2, (2, 4))[:: (3 if quick else 1)]:
        for elt in (8, 32) if quick else (8, 32, 64):
            for mask in itertools.product((True, False), repeat=len(b)):
                if any(mask):
                    cases.append((b, elt, list(mask)))
                    if elt == 32:
                        cases.append((b, elt, list(mask), True))
                # offsets that are constants: zero everywhere, and one outer tile in the dimensions that are not run-time
                # values (what unrolling / folding a tile loop leaves behind)
                if elt == 32 or not any(mask):
                    st1 = [0 if mk_ else min(1, bb[0] - 1) for mk_, bb in zip(mask, b)]
                    if not any(mask):
                        cases.append((b, elt, list(mask), False, [0] * len(b)))
                    if any(st1):
                        cases.append((b, elt, list(mask), False, st1))
    if only in (None, "subview"):
        chk.add_results("subview_pointer", pmap(case_subview, cases, chunks=2))
    if only in (None, "alloc"):
        # the byte size memref-to-snax computes from the same bound / step IR: covers the last byte of every element,
        # layout offset included (the obligation of C11, on a few layouts)
        from .c11 import case_size

        chk.add_results("allocation_size_from_bound_and_step_ops", pmap(case_size, [("tsl", b_, w_) for b_ in ([[4]], [[2, 4]], [[2, 2], [2, 4]], [[None, 4]]) for w_ in (8, 32)], chunks=2))
    chk.outside = [
        "rank > 4, tile depth > 3, tile bounds outside the enumerated set",
        "subview offsets that are not multiples of the inner tile product in convert-memref-to-arith",
        "print/parse and numpy enumeration views for all layouts (representatives / concrete layouts only)",
        "get_step_ops on a strided memref with in_bytes=False (no caller; the branch scales by the element size regardless)",
    ]
