"""C09 - chosen memory layouts are one-to-one on the operand."""

from __future__ import annotations

import itertools
import random
import warnings

import numpy as np
import z3

from .. import sym, xshim
from ..harness import mval, replay_pinned, run_case
from ..runner import pmap
from ..sym import SymInt, eng
from .c10 import Lambda, Lambda_py

LEVEL = "other"


# ------------------------------------------------------------------ schedule generator (gemmx, hand-written dart.schedule)

BODY3 = """
  ^bb0(%s0 : !dart.stream<i8>, %s1 : !dart.stream<i8>, %s2 : !dart.stream<i32>):
    %g = "dart.generic"(%s0, %s1) <{library_call = "snax_gemmx"}> ({
    ^bb1(%a : i8, %b : i8, %acc : i32):
      %m = kernel.mac %a, %b : i8, i8 -> i32
      dart.yield %m : i32
    }) : (!dart.stream<i8>, !dart.stream<i8>) -> !dart.stream<i32>
    dart.yield %g : !dart.stream<i32>"""
BODY4 = """
  ^bb0(%s0 : !dart.stream<i8>, %s1 : !dart.stream<i8>, %s2 : !dart.stream<i32>, %s3 : !dart.stream<i32>):
    %g = "dart.generic"(%s0, %s1) <{library_call = "snax_gemmx"}> ({
    ^bb1(%a : i8, %b : i8, %acc : i32):
      %m = kernel.mac %a, %b : i8, i8 -> i32
      dart.yield %m : i32
    }) : (!dart.stream<i8>, !dart.stream<i8>) -> !dart.stream<i32>
    %h = "dart.generic"(%g, %s2) <{library_call = "snax_gemmx"}> ({
    ^bb2(%x : i32, %y : i32, %z : i32):
      %r = kernel.add %x, %y : i32, i32 -> i32
      dart.yield %r : i32
    }) : (!dart.stream<i32>, !dart.stream<i32>) -> !dart.stream<i32>
    dart.yield %h : !dart.stream<i32>"""


def gemm_schedule_src(order, bnd, bias, existing=None):
    """order: tuple of temporal loop names (outermost first) from b, m0, m1, n0, k0; bnd: dict name->bound.
    inner dims m,n,k = 8.  bias: None | 'n' (memref<Nxi32>) | 'bn' (memref<BxNxi32>)."""
    names = list(order) + ["m", "n", "k"]
    d = {nm: f"d{i}" for i, nm in enumerate(names)}
    B = dict(bnd)
    B.update(m=8, n=8, k=8)

    def expr(parts):
        out = []
        mult = 1
        for nm in reversed(parts):
            if nm in d:
                out.insert(0, f"{d[nm]} * {mult}" if mult != 1 else d[nm])
                mult *= B[nm]
        return " + ".join(out) if out else "0", mult

    M, Msz = expr(["m0", "m1", "m"])
    N, Nsz = expr(["n0", "n"])
    K, Ksz = expr(["k0", "k"])
    hasb = "b" in d
    Bsz = B.get("b", 1)
    dims = ", ".join(d[nm] for nm in names)
    pre = f"{d['b']}, " if hasb else ""
    shp = f"{Bsz}x" if hasb else ""
    pats = [f"affine_map<({dims}) -> ({pre}{M}, {K})>", f"affine_map<({dims}) -> ({K}, {N})>"]
    tys = [f"memref<{shp}{Msz}x{Ksz}xi8>", f"memref<{Ksz}x{Nsz}xi8>"]
    if bias == "n":
        pats.append(f"affine_map<({dims}) -> ({N})>")
        tys.append(f"memref<{Nsz}xi32>")
    elif bias == "bn":
        pats.append(f"affine_map<({dims}) -> ({pre}{N})>")
        tys.append(f"memref<{shp}{Nsz}xi32>")
    pats.append(f"affine_map<({dims}) -> ({pre}{M}, {N})>")
    tys.append(f"memref<{shp}{Msz}x{Nsz}xi32>")
    if existing is not None:
        tys[existing[0]] = tys[existing[0]][:-1] + ", " + existing[1] + ">"
    bounds = ", ".join(f"{B[nm]} : index" for nm in names)
    nin = len(tys) - 1
    args = ", ".join(f"%a{i} : {t}" for i, t in enumerate(tys))
    ops = ", ".join(f"%a{i}" for i in range(len(tys)))
    body = BODY4 if bias else BODY3
    return f"""
func.func @f({args}) {{
  "dart.schedule"({ops}) <{{patterns = [{", ".join(pats)}], accelerator = "snax_gemmx", tiles = [[]], bounds = [{bounds}], operandSegmentSizes = array<i32: {nin}, 1>}}> ({{{body}
  }}) : ({", ".join(tys)}) -> ()
  func.return
}}
"""


CONV_SRC = """
func.func @f() -> () {
  %4 = memref.alloc() : memref<1x16x18x18xi8>
  %5 = memref.alloc() : memref<16x16x3x3xi8>
  %6 = memref.alloc() : memref<1x16x16x16xi32>
  "dart.schedule"(%4, %5, %6) <{patterns = [affine_map<(d0, d1, d2, d3, d4, d5, d6, d7, d8, d9) -> (d0, ((d4 * 8) + d9), (d2 + d5), (((d3 * 8) + d6) + d7))>, affine_map<(d0, d1, d2, d3, d4, d5, d6, d7, d8, d9) -> (((d1 * 8) + d8), ((d4 * 8) + d9), d5, d6)>, affine_map<(d0, d1, d2, d3, d4, d5, d6, d7, d8, d9) -> (d0, ((d1 * 8) + d8), d2, ((d3 * 8) + d7))>], accelerator = "snax_gemmx", tiles = [[]], bounds = [1 : index, 2 : index, 16 : index, 2 : index, 2 : index, 3 : index, 3 : index, 8 : index, 8 : index, 8 : index], operandSegmentSizes = array<i32: 2, 1>}> ({""" + BODY3 + """
  }) : (memref<1x16x18x18xi8>, memref<16x16x3x3xi8>, memref<1x16x16x16xi32>) -> ()
  func.return
}
"""


def conv_src(kh, kw, mirror, oh=16):
    """the repository's convolution schedule with a kh x kw kernel (1 x 1: loops with a single trip nested inside the
    loops over the rows); mirror: the weights are indexed backwards (kh-1-d5, kw-1-d6), a true convolution."""
    ih, iw = oh + kh - 1, 16 + kw - 1
    wy = f"((d5 * -1) + {kh - 1})" if mirror else "d5"
    wx = f"((d6 * -1) + {kw - 1})" if mirror else "d6"
    dims = "(d0, d1, d2, d3, d4, d5, d6, d7, d8, d9)"
    return f"""
func.func @f() -> () {{
  %4 = memref.alloc() : memref<1x16x{ih}x{iw}xi8>
  %5 = memref.alloc() : memref<16x16x{kh}x{kw}xi8>
  %6 = memref.alloc() : memref<1x16x{oh}x16xi32>
  "dart.schedule"(%4, %5, %6) <{{patterns = [affine_map<{dims} -> (d0, ((d4 * 8) + d9), (d2 + d5), (((d3 * 8) + d6) + d7))>, affine_map<{dims} -> (((d1 * 8) + d8), ((d4 * 8) + d9), {wy}, {wx})>, affine_map<{dims} -> (d0, ((d1 * 8) + d8), d2, ((d3 * 8) + d7))>], accelerator = "snax_gemmx", tiles = [[]], bounds = [1 : index, 2 : index, {oh} : index, 2 : index, 2 : index, {kh} : index, {kw} : index, 8 : index, 8 : index, 8 : index], operandSegmentSizes = array<i32: 2, 1>}}> ({{""" + BODY3 + f"""
  }}) : (memref<1x16x{ih}x{iw}xi8>, memref<16x16x{kh}x{kw}xi8>, memref<1x16x{oh}x16xi32>) -> ()
  func.return
}}
"""


def run_layout(src, tiled, pre=()):
    from xdsl.parser import Parser

    from snaxc.dialects import dart
    from snaxc.dialects.snax import LayoutCast

    main = xshim.make_main()
    m = Parser(main.ctx, src).parse_module()
    spec = ["insert-accfg-op{accelerator=snax_gemmx}"] + list(pre) + ["set-memory-layout{tiled=%s}" % ("true" if tiled else "false")]
    with warnings.catch_warnings():
        warnings.simplefilter("ignore")
        xshim.apply_passes(m, ",".join(spec), main)
    casts = [o for o in m.walk() if isinstance(o, LayoutCast)]
    S = [o for o in m.walk() if isinstance(o, dart.ScheduleOp)][0]
    return m, casts, S


def case_layout(case):
    from snaxc.dialects.tsl import TiledStridedLayoutAttr

    kind, tiled = case[0], case[1]
    if kind == "gemm":
        _, _, order, bnd, bias = case
        src, pre = gemm_schedule_src(order, dict(bnd), bias), ()
    elif kind == "conv":
        src, pre = (conv_src(*case[2:]) if len(case) > 2 else CONV_SRC), ()
    elif kind == "existing":
        _, _, order, bnd, bias, which = case
        src, pre = gemm_schedule_src(order, dict(bnd), bias, existing=(which, "#tsl.tsl<[2, 8] -> (128, 8), [2, 8] -> (64, 1)>")), ()
    else:
        _, _, shp, i8out = case
        from .c02 import gemmx_src

        src, pre = gemmx_src(shp[0], shp[1], shp[2], i8out, (None, None, None)), ("dart-scheduler",)

    def layouts():
        m, casts, S = run_layout(src, tiled, pre)
        out = []
        for c in casts:
            mt = c.dest.type
            t = mt.layout.data
            out.append((list(mt.get_shape()), [[s.bound for s in ts.strides] for ts in t.tstrides], [[s.step for s in ts.strides] for ts in t.tstrides],
                        t.offset, mt.element_type.size, str(t)))
        return out, S

    def fn():
        E = eng()
        ls, S = layouts()
        if kind == "existing":
            E.oblige("existing_layout:operands_untouched", z3.BoolVal(len(ls) == 0), dict(new_casts=len(ls)))
            return
        E.oblige("layout:one_cast_per_operand", z3.BoolVal(len(ls) == len(S.operands)), dict(casts=len(ls), operands=len(S.operands)))
        for o, (shape, bounds, steps, off, el, txt) in enumerate(ls):
            dyn = any(b is None for bs in bounds for b in bs) or any(s is None for ss in steps for s in ss)
            E.oblige("layout:static", z3.BoolVal(not dyn), dict(layout=txt))
            if dyn:
                continue
            cov = [int(np.prod(b)) for b in bounds]
            E.oblige("layout:covers_exactly_the_shape", z3.BoolVal(cov == shape), dict(operand=o, layout=txt, shape=shape, covered=cov))
            E.oblige("layout:positive_steps", z3.BoolVal(all(s > 0 for ss in steps for s in ss)), dict(layout=txt))
            if cov != shape:
                continue
            x = [z3.Int(f"x{o}_{d}") for d in range(len(shape))]
            y = [z3.Int(f"y{o}_{d}") for d in range(len(shape))]
            for v, n in zip(x + y, shape + shape):
                E.assume(z3.And(v >= 0, v < n))
            E.oblige("layout:injective", z3.Implies(Lambda(bounds, steps, x) == Lambda(bounds, steps, y), z3.And([a == b for a, b in zip(x, y)])),
                     dict(operand=o, layout=txt, shape=shape))

    def replay(f):
        ls, S = layouts()
        bad = []
        if kind == "existing":
            return len(ls) != 0, f"{len(ls)} layout casts inserted although an operand carries an explicit layout"
        for o, (shape, bounds, steps, off, el, txt) in enumerate(ls):
            if any(b is None for bs in bounds for b in bs):
                bad.append(f"dynamic {txt}")
                continue
            cov = [int(np.prod(b)) for b in bounds]
            if cov != shape:
                bad.append(f"operand {o}: {txt} covers {cov} of {shape}")
                continue
            seen = {}
            for idx in itertools.product(*[range(n) for n in shape]):
                a = Lambda_py(bounds, steps, list(idx))
                if a in seen:
                    bad.append(f"operand {o}: {txt}: elements {seen[a]} and {idx} share address {a}")
                    break
                seen[a] = idx
        return bool(bad), "; ".join(bad[:3])

    return run_case(fn, replay, signature=lambda f, v: f["name"], sample=dict(case=str(case)[:200]), key=str(case), timeout_ms=30000)


# ------------------------------------------------------------------ ensure_access_granularity with a symbolic stride


def case_granularity(case):
    from xdsl.parser import Parser

    from snaxc.dialects import dart
    from snaxc.transforms.set_memory_layout import ensure_access_granularity, spatial_dims

    regime, width = case

    def fn():
        E = eng()
        main = xshim.make_main()
        src = gemm_schedule_src(("n0", "m0", "k0"), dict(n0=2, m0=2, k0=2), None)
        m = Parser(main.ctx, src).parse_module()
        xshim.apply_passes(m, "insert-accfg-op{accelerator=snax_gemmx}", main)
        S = [o for o in m.walk() if isinstance(o, dart.ScheduleOp)][0]
        operand = S.operands[0] if width == 8 else S.operands[-1]
        nsp = spatial_dims(main.ctx, S)
        sdim = 0 if regime == "spatial" else nsp  # schedule_dim counts from the innermost loop
        s = sym.sym("s", 1, None)
        r = ensure_access_granularity(main.ctx, s, sdim, S, operand)
        g = (8 if width == 8 else 2) if regime == "spatial" else (8 if width == 8 else 16)
        rz = sym.zint(r)
        E.oblige("granularity:never_shrinks", rz >= s.z, dict(regime=regime, width=width))
        E.oblige("granularity:aligned_or_unit", z3.Or(rz == 1, rz % g == 0), dict(regime=regime, width=width, granularity=g))
        E.oblige("granularity:padding_below_64", rz - s.z < 64)

    def replay(f):
        return replay_pinned(fn, f)

    return run_case(fn, replay, signature=lambda f, v: f["name"], sample=dict(regime=regime, width=width), key=str(case), witness=True)


def run(chk):
    quick = chk.tier == "quick"
    rnd = random.Random(chk.seed)
    only = getattr(chk, "only", None)
    chk.functions = ["snaxc.transforms.set_memory_layout.AddCyclicMemoryLayout/ensure_access_granularity/spatial_dims",
                     "snaxc.ir.tsl.TiledStridedLayout.canonicalize / TiledStride.canonicalize", "dart-scheduler (real, produces some of the schedules)"]
    chk.explanation = (
        "The real set-memory-layout (tiled=true/false) runs on dart.schedule ops - generated gemmx schedules (all loop orders of "
        "batch / two-level M tiles / N tile / K tile, optional bias operand, i8 and i32 operands), the repository's convolution "
        "schedule and schedules produced by the real dart-scheduler; the tiled-strided layout of every inserted snax.layout_cast is "
        "read and z3 proves over two symbolic indices that distinct elements get distinct addresses (the layout function of C10) and "
        "that the tile bounds cover exactly the operand shape. Operands with an explicit layout must stay untouched. The padding "
        "kernel ensure_access_granularity is executed with a symbolic stride (unbounded) on a real op/context in both regimes.")
    chk.assumptions = ["shapes concrete (memref types); bounds 8 for the accelerator's spatial dims"]
    cases = []
    tnames = ["b", "m0", "m1", "n0", "k0"]
    subsets = [("m0", "n0", "k0"), ("m0", "m1", "n0", "k0"), ("b", "m0", "n0", "k0"), ("n0", "k0"), ("m0",), ("b", "m0", "m1", "n0", "k0")]
    bsets = [dict(b=2, m0=2, m1=2, n0=2, k0=2), dict(b=2, m0=2, m1=8, n0=2, k0=2), dict(b=3, m0=4, m1=2, n0=3, k0=2)]
    for sub in subsets:
        perms = list(itertools.permutations(sub))
        if len(perms) > (6 if quick else 24):
            perms = rnd.sample(perms, 6 if quick else 24)
        for order in perms:
            for bs in bsets[: 2 if quick else 3]:
                bnd = tuple((k, v) for k, v in bs.items() if k in sub)
                for bias in (None, "n") + (("bn",) if "b" in sub else ()):
                    for tiled in (True, False):
                        cases.append(("gemm", tiled, order, bnd, bias))
    for tiled in (True, False):
        cases.append(("conv", tiled))
        # kernel sizes incl. 1 (single-trip loops inside multi-trip ones), mirrored weights (negative coefficients)
        for kh, kw, mirror in ((1, 1, False), (3, 3, True), (1, 3, False), (3, 1, True), (2, 2, True), (1, 1, True), (2, 1, False)):
            cases.append(("conv", tiled, kh, kw, mirror))
        cases.append(("conv", tiled, 1, 1, False, 4))
        # gemm loops with a single trip, at every depth of the loop nest
        for order in (("m0", "n0", "m1", "k0"), ("m1", "m0", "n0", "k0"), ("m0", "m1", "k0", "n0"), ("n0", "k0", "m0", "m1")):
            for one in order:
                bnd = tuple((k, 1 if k == one else v) for k, v in dict(m0=2, m1=2, n0=2, k0=2).items())
                cases.append(("gemm", tiled, order, bnd, None))
        for shp in ((16, 16, 16), (8, 8, 8), (32, 16, 24), (24, 40, 8)):
            for i8 in (False, True):
                cases.append(("sched", tiled, shp, i8))
        cases.append(("existing", tiled, ("m0", "n0", "k0"), (("m0", 2), ("n0", 2), ("k0", 2)), None, 0))
        cases.append(("existing", tiled, ("m0", "n0", "k0"), (("m0", 2), ("n0", 2), ("k0", 2)), "n", 1))
        # explicit layout on every single operand position, including the output only
        cases.append(("existing", tiled, ("m0", "n0", "k0"), (("m0", 2), ("n0", 2), ("k0", 2)), None, 1))
        cases.append(("existing", tiled, ("m0", "n0", "k0"), (("m0", 2), ("n0", 2), ("k0", 2)), None, 2))
        cases.append(("existing", tiled, ("m0", "n0", "k0"), (("m0", 2), ("n0", 2), ("k0", 2)), "n", 3))
        cases.append(("existing", tiled, ("n0", "m0", "k0"), (("m0", 2), ("n0", 2), ("k0", 2)), None, 2))
    if quick and len(cases) > 260:
        keep = [c for c in cases if c[0] != "gemm" or 1 in dict(c[3]).values()]
        cases = keep + rnd.sample([c for c in cases if c not in keep], max(0, 260 - len(keep)))
    if only in (None, "layout"):
        chk.add_results("chosen_layouts", pmap(case_layout, cases, chunks=2))
    if only in (None, "gran"):
        chk.add_results("ensure_access_granularity", pmap(case_granularity, [(r, w) for r in ("spatial", "temporal") for w in (8, 32)]))
    chk.bounds = dict(schedules=len(cases), loop_orders="permutations of up to 5 temporal loops (sampled)", tile_bounds="1,2,3,4,8", widths="i8/i32", conv="kernels 1x1..3x3, forward and mirrored weights")
    chk.outside = ["element widths 16/64", "accelerators other than snax_gemmx", "dynamic shapes"]
