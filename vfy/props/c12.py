"""C12 - materialised casts deliver the right data to every consumer.

before : the cast-free source program on a buffer-contents machine (z3 arrays of element values)
after  : alloc-to-global, set-memory-space, <layout casts on accelerator operands, as set-memory-layout creates them>,
         realize-memref-casts [, clear-memory-space] - executed on the same machine, every access translated through the
         layout of the value's type (tiled-strided / strided / row-major) into a physical element address.
"""

from __future__ import annotations

import itertools
import random

import z3

from .. import irsym, sym, xshim
from ..harness import replay_pinned, run_case
from ..irsym import Opaque
from ..runner import pmap
from ..sym import eng

LEVEL = "translation_validation"

R, C = 4, 4
FULL = f"memref<{R}x{C}xi32>"


def tile_t(off):
    return f"memref<2x{C}xi32, strided<[{C}, 1], offset: {off}>>"


G2 = """"linalg.generic"({i0}, {i1}, {o}) <{{indexing_maps = [affine_map<(d0, d1) -> (d0, d1)>, affine_map<(d0, d1) -> (d0, d1)>, affine_map<(d0, d1) -> (d0, d1)>], iterator_types = [#linalg.iterator_type<parallel>, #linalg.iterator_type<parallel>], operandSegmentSizes = array<i32: 2, 1>}}> ({{
{ind}^bb1(%x{t} : i32, %y{t} : i32, %z{t} : i32):
{ind}  %m{t} = "arith.muli"(%x{t}, %y{t}) : (i32, i32) -> i32
{ind}  "linalg.yield"(%m{t}) : (i32) -> ()
{ind}}}) {{tag = {t} : i32}} : ({t0}, {t1}, {t2}) -> ()"""

D2 = """"dart.operation"({i0}, {i1}, {o}) <{{patterns = [affine_map<(d0, d1) -> (d0, d1)>, affine_map<(d0, d1) -> (d0, d1)>, affine_map<(d0, d1) -> (d0, d1)>], accelerator = "snax_alu", operandSegmentSizes = array<i32: 2, 1>}}> ({{
{ind}^bb2(%s0{t} : !dart.stream<i32>, %s1{t} : !dart.stream<i32>, %s2{t} : !dart.stream<i32>):
{ind}  %g{t} = "dart.generic"(%s0{t}, %s1{t}) <{{library_call = "snax_alu"}}> ({{
{ind}  ^bb3(%p{t} : i32, %q{t} : i32, %r{t} : i32):
{ind}    %k{t} = kernel.add %p{t}, %q{t} : i32, i32 -> i32
{ind}    dart.yield %k{t} : i32
{ind}  }}) : (!dart.stream<i32>, !dart.stream<i32>) -> !dart.stream<i32>
{ind}  dart.yield %g{t} : !dart.stream<i32>
{ind}}}) {{tag = {t} : i32}} : ({t0}, {t1}, {t2}) -> ()"""


# ------------------------------------------------------------------ independent layout semantics


def dims_of(t):
    return tuple(t.get_shape())


def addr_fn(t, dyn_offset=None):
    """address (in elements, relative to the root buffer) of logical index idx under the layout of memref type t.
    Written from the layout definitions, not from the compiler's own TiledStridedLayout evaluation."""
    from xdsl.dialects import builtin

    from snaxc.dialects.tsl import TiledStridedLayoutAttr

    lay = t.layout
    shape = dims_of(t)
    if isinstance(lay, builtin.NoneAttr):
        def f(idx):
            a = 0
            for d, i in enumerate(idx):
                a = a * shape[d] + i
            return a
        return f
    if isinstance(lay, builtin.StridedLayoutAttr):
        strides = [s.data if not isinstance(s, builtin.NoneAttr) else None for s in lay.strides.data]
        off = lay.offset.data if not isinstance(lay.offset, builtin.NoneAttr) else dyn_offset
        if any(s is None for s in strides) or off is None:
            return None
        return lambda idx: off + sum(i * s for i, s in zip(idx, strides))
    if isinstance(lay, TiledStridedLayoutAttr):
        ts = [[(s.step, s.bound) for s in tstride.strides] for tstride in lay.data.tstrides]
        if any(st is None or b is None for d in ts for st, b in d):
            return None

        def f(idx):
            a = 0
            for d, i in enumerate(idx):
                inner = 1
                for k in range(len(ts[d]) - 1, -1, -1):
                    st, b = ts[d][k]
                    q = i // inner if isinstance(i, int) else i / inner
                    if k == 0:
                        a = a + q * st  # outermost tile index is not wrapped (views of larger buffers)
                    else:
                        a = a + (q % b) * st
                    inner *= b
            return a
        return f
    return None


class View:
    def __init__(self, root, shape, addr, what=""):
        self.root, self.shape, self.addr, self.what = root, tuple(shape), addr, what

    def indices(self):
        return itertools.product(*[range(n) for n in self.shape])


class Machine:
    """buffer-contents machine shared by the two runs: roots are z3 arrays (element address -> value)."""

    def __init__(self, name, shared_init):
        self.name = name
        self.mem = {}
        self.init = shared_init
        self.events = []
        self.n = 0
        self.problems = []
        self.shadow = Shadow()

    def new_root(self, key, init=None):
        self.n += 1
        nm = f"{key}"
        if nm in self.mem:
            nm = f"{key}#{self.n}"
        self.mem[nm] = init if init is not None else z3.Array(f"{self.name}:{nm}:{self.n}", z3.IntSort(), z3.IntSort())
        return nm

    def load(self, v, idx):
        return z3.Select(self.mem[v.root], v.addr(list(idx)))

    def store(self, v, idx, x):
        self.mem[v.root] = z3.Store(self.mem[v.root], v.addr(list(idx)), x)

    def logical(self, v):
        return [self.load(v, i) for i in v.indices()]


def z(x):
    return x if z3.is_expr(x) else z3.IntVal(int(x))


class Shadow:
    """Book-keeping on the after-run that explains a wrong value: which stand-in buffers (allocations created by
    realize-memref-casts) are in step with the buffer they stand in for, and which buffers hold data derived from an
    out-of-step read (taint flows along copies and operations). Only used to name the situation in the signature of
    a failing obligation; it never decides an obligation."""

    COH = "buffer_reached_through_several_values_not_kept_coherent"

    def __init__(self):
        self.ver = {}
        self.st = {}
        self.hz = []
        self.taint = {}
        self.loops = []  # [loop identity, iteration] innermost last

    def standin(self, root):
        self.st[root] = dict(src=None, dirty=False, ver=None)

    def h(self, kind, root):
        self.hz.append(dict(kind=kind, root=root, saved_later=False))
        return len(self.hz) - 1

    def _unsaved(self, r, but=None):
        """hazards: stand-ins of buffer r (other than `but`) that hold data newer than r"""
        return {self.h("original_accessed_while_a_stand_in_holds_newer_data", a) for a, s in self.st.items() if a != but and s["src"] == r and s["dirty"]}

    def _orig_written(self, r, but=None):
        """buffer r is written while stand-ins of it hold newer data: a later copy-back of such a stand-in overwrites
        this write, and the stand-in misses it"""
        out = set()
        for a, st in self.st.items():
            if a != but and st["src"] == r and st["dirty"]:
                k = self.h("original_accessed_while_a_stand_in_holds_newer_data", a)
                out.add(k)
                self.taint[a] = set(self.taint.get(a, ())) | {k}
        return out

    def _read(self, v):
        """taint of the data a reader of v gets"""
        r = v.root
        t = set(self.taint.get(r, ()))
        if r in self.st:
            s = self.st[r]
            if s["ver"] in (None, -1) and not s["dirty"]:
                t.add(self.h("stand_in_read_before_it_was_filled", r))
            elif not s["dirty"] and s["ver"] != self.ver.get(s["src"], 0):
                t.add(self.h("original_changed_after_stand_in_was_filled", r))
            if s["src"] is not None:
                t |= self._unsaved(s["src"], but=r)
        else:
            t |= self._unsaved(r)
        return t

    def _write(self, v, t):
        r = v.root
        t = set(t)
        if r in self.st:
            self.st[r]["dirty"] = True
            self.st[r]["dirty_at"] = [tuple(x) for x in self.loops]
        else:
            t |= self._orig_written(r)
        self.ver[r] = self.ver.get(r, 0) + 1
        whole = not v.what.startswith("subview")
        self.taint[r] = t if whole else (set(self.taint.get(r, ())) | t)

    def acc(self, ins, out):
        ts = [self._read(v) for v in ins]
        self._write(out, set().union(*ts) if ts else set())
        return ts

    def use(self, v):
        t = self._read(v)
        self._write(v, t)
        return t

    def read(self, v):
        return self._read(v)

    def copy(self, s, d):
        if d.root in self.st and s.root not in self.st:
            st = self.st[d.root]
            t = set(self.taint.get(s.root, ())) | self._unsaved(s.root, but=d.root)
            if st["dirty"]:
                now = dict(tuple(x) for x in self.loops)
                earlier_iteration = any(l in now and now[l] != k for l, k in st.get("dirty_at", []))
                k = self.h("fill_overwrites_data_written_in_an_earlier_loop_iteration" if earlier_iteration else "fill_overwrites_stand_in_holding_newer_data", d.root)
                t.add(k)
                self.taint[s.root] = set(self.taint.get(s.root, ())) | {k}  # the newest data is lost: the original is out of date for good
            st.update(src=s.root, dirty=False, ver=self.ver.get(s.root, 0))
            self.taint[d.root] = t
        elif s.root in self.st and d.root not in self.st:
            st = self.st[s.root]
            t = set(self.taint.get(s.root, ())) | self._orig_written(d.root, but=s.root)
            self.ver[d.root] = self.ver.get(d.root, 0) + 1
            st.update(src=d.root, dirty=False, ver=self.ver[d.root])
            whole = not d.what.startswith("subview")
            self.taint[d.root] = t if whole else (set(self.taint.get(d.root, ())) | t)
            for h in self.hz:
                if h["root"] == s.root:
                    h["saved_later"] = True
        else:
            self._write(d, self._read(s))

    def names(self, t):
        """resolved at the end of the path (whether a stand-in was copied back later is known then)"""
        out = set()
        if t and any(s.get("cast_name") in getattr(self, "redundant", ()) for s in self.st.values()):
            out.add("memory_space_cast_duplicated_although_an_earlier_one_is_defined_before_all_its_users")
        for k in t:
            h = self.hz[k]
            if h["kind"] == "original_changed_after_stand_in_was_filled":
                out.add(self.COH)
            elif h["kind"] == "original_accessed_while_a_stand_in_holds_newer_data":
                out.add(self.COH if h["saved_later"] else "stand_in_data_never_copied_back")
            elif h["kind"] == "fill_overwrites_data_written_in_an_earlier_loop_iteration":
                if "deepwriter:" + str(self.st.get(h["root"], {}).get("cast_name")) in getattr(self, "redundant", ()):
                    out.add("fill_left_in_a_loop_although_the_first_user_writes_two_regions_below_the_cast")
                else:
                    out.add("stand_in_refilled_in_a_loop_before_its_data_was_copied_back")
            elif h["kind"] == "fill_overwrites_stand_in_holding_newer_data":
                out.add("writer_before_first_reader_and_writer_after_it" if h["saved_later"] else "fill_overwrites_newer_data_that_is_never_copied_back")
            elif h["kind"] == "stand_in_read_before_it_was_filled" and self.st[h["root"]].get("has_fill"):
                if "deepwriter:" + str(self.st.get(h["root"], {}).get("cast_name")) in getattr(self, "redundant", ()):
                    out.add("fill_left_in_a_loop_although_the_first_user_writes_two_regions_below_the_cast")
                else:
                    out.add("fill_of_stand_in_sits_in_a_loop_that_did_not_run")
            else:
                out.add(h["kind"])
        return sorted(out)


def handlers(M: Machine, module, after):
    from xdsl.dialects import builtin, memref

    def root_view(M, key, t, init=None):
        f = addr_fn(t, dyn_offset=0)  # a fresh buffer starts at its own offset 0
        if f is None:
            raise irsym.InterpError(f"layout of {t} not executable")
        return View(M.new_root(key, init), dims_of(t), f, key)

    def h_alloc(I, op):
        hint = op.results[0].name_hint
        t = op.results[0].type
        # contents of a fresh allocation are arbitrary: every allocation gets its own unconstrained array
        v = root_view(M, f"alloc:{hint or 'tmp'}", t)
        if after and (hint is None or hint.startswith("si")):
            M.shadow.standin(v.root)
            M.shadow.st[v.root]["cast_name"] = hint
            # which buffer it stands in for: the other side of the copies realize-memref-casts attached to it
            M.shadow.st[v.root]["has_fill"] = any(u.operation.name == "memref.copy" and u.index == 1 for u in op.results[0].uses)
            for u in op.results[0].uses:
                if u.operation.name == "memref.copy":
                    other = u.operation.operands[1 - u.index]
                    try:
                        M.shadow.st[v.root]["src"] = I.get(other).root
                        M.shadow.st[v.root]["ver"] = -1
                    except Exception:
                        pass
        I.set(op.results[0], v)

    def dense_values(attr):
        vals = list(attr.get_values())
        n = 1
        for d in attr.type.get_shape():
            n *= d
        if len(vals) == 1 and n > 1:
            vals = vals * n
        return [int(v) for v in vals]

    def const_array(name, vals):
        a = z3.K(z3.IntSort(), z3.IntVal(-7))
        for k, v in enumerate(vals):
            a = z3.Store(a, k, z3.IntVal(v))
        return a

    globals_seen = {}

    def h_get_global(I, op):
        from xdsl.traits import SymbolTable

        g = SymbolTable.lookup_symbol(op, op.name_)
        if not isinstance(g, memref.GlobalOp):
            raise irsym.InterpError(f"memref.get_global @{op.name_.string_value()} does not resolve to a global")
        nm = g.sym_name.data
        t = op.results[0].type
        if nm not in globals_seen:
            if isinstance(g.initial_value, builtin.UnitAttr):
                init = None
            else:
                init = const_array(nm, dense_values(g.initial_value))
            globals_seen[nm] = (M.new_root(f"global:{nm}", init), g)
        rootname, g = globals_seen[nm]
        # the data is stored in the order the GLOBAL's type prescribes; the get_global result type has to agree with it
        f_glob, f_get = addr_fn(g.type), addr_fn(t)
        if f_glob is None or f_get is None:
            raise irsym.InterpError("global layout not executable")
        v = View(rootname, dims_of(t), f_get, f"global:{nm}")
        if any(f_glob(list(i)) != f_get(list(i)) for i in v.indices()):
            M.problems.append(("types:get_global_layout_equals_layout_of_global", f"@{nm}: {g.type} vs {t}"))
        I.set(op.results[0], v)

    def h_constant(I, op):
        t = op.results[0].type
        if isinstance(t, builtin.MemRefType):
            I.set(op.results[0], root_view(M, f"const:{op.results[0].name_hint}", t, const_array("c", dense_values(op.value))))
        else:
            irsym.ARITH_INT["arith.constant"](I, op)

    def h_subview(I, op):
        src = I.get(op.source)
        dyn = iter(I.get(o) for o in op.offsets)
        offs = [next(dyn) if o == builtin.DYNAMIC_INDEX else o for o in op.static_offsets.get_values()]
        sizes = list(op.static_sizes.get_values())
        strides = list(op.static_strides.get_values())
        if any(s == builtin.DYNAMIC_INDEX for s in sizes + strides):
            raise irsym.InterpError("dynamic subview sizes/strides")
        actual = lambda idx: src.addr([o + i * s for o, i, s in zip(offs, idx, strides)])
        v = View(src.root, sizes, actual, f"subview of {src.what}")
        # the result type is what every later pass addresses the view with: it has to agree with the data's real position
        t = op.result.type
        base = actual([0] * len(sizes))
        claimed = addr_fn(t, dyn_offset=base)
        if claimed is None:
            raise irsym.InterpError(f"layout of {t} not executable")
        c0 = claimed([0] * len(sizes))
        conj = []
        for idx in v.indices():
            conj.append(z(claimed(list(idx))) - z(c0) == z(actual(list(idx))) - z(base))
        if isinstance(t.layout, builtin.StridedLayoutAttr) and not isinstance(t.layout.offset, builtin.NoneAttr):
            conj.append(z(c0) == z(base))
        eng().oblige("types:subview_result_layout_addresses_the_viewed_elements" if after else "harness:source_subview_types",
                     z3.And(*conj), dict(subview=str(op)[:200], source_type=str(op.source.type)))
        I.set(op.result, v)

    def h_alias(I, op):
        I.set(op.results[0], I.get(op.operands[0]))

    def h_copy(I, op):
        s, d = I.get(op.operands[0]), I.get(op.operands[1])
        if s.shape != d.shape:
            raise irsym.InterpError("copy between different shapes")
        M.shadow.copy(s, d)
        vals = [(i, M.load(s, i)) for i in s.indices()]
        for i, x in vals:
            M.store(d, i, x)

    def tag(op):
        t = op.attributes.get("tag")
        return t.value.data if t is not None else None

    def h_acc(I, op):
        ins = [I.get(o) for o in op.inputs]
        outs = [I.get(o) for o in op.outputs]
        t = tag(op)
        ts = M.shadow.acc(ins, outs[0])
        M.events.append(("acc", t, [M.logical(v) for v in ins], ts))
        f = z3.Function(f"f{t}", *([z3.IntSort()] * (len(ins) + 1)))
        res = [(i, f(*[M.load(v, i) for v in ins])) for i in outs[0].indices()]
        for i, x in res:
            M.store(outs[0], i, x)

    def h_test(I, op):
        t = tag(op)
        h = z3.Function(f"h{t}", z3.IntSort(), z3.IntSort())
        for o in op.operands:
            v = I.get(o)
            if isinstance(v, View):
                ts = M.shadow.use(v)
                M.events.append(("use", t, [M.logical(v)], [ts]))
                for i in list(v.indices()):
                    M.store(v, i, h(M.load(v, i)))

    def h_return(I, op):
        vals = [I.get(o) for o in op.operands]
        views = [v for v in vals if isinstance(v, View)]
        M.events.append(("return", None, [M.logical(v) for v in views], [M.shadow.read(v) for v in views]))
        return vals

    def h_dealloc(I, op):
        pass

    def h_for_iter(I, op, k):
        L = M.shadow.loops
        if L and L[-1][0] == id(op):
            L[-1][1] = k
        else:
            L.append([id(op), k])

    def h_for_exit(I, op, k):
        L = M.shadow.loops
        if L and L[-1][0] == id(op):
            L.pop()

    return {"memref.alloc": h_alloc, "memref.get_global": h_get_global, "arith.constant": h_constant, "memref.subview": h_subview,
            "memref.memory_space_cast": h_alias, "snax.layout_cast": h_alias, "memref.copy": h_copy, "linalg.generic": h_acc,
            "dart.operation": h_acc, "test.op": h_test, "func.return": h_return, "memref.dealloc": h_dealloc, "memref.global": lambda I, op: None,
            "@for_iter": h_for_iter, "@for_exit": h_for_exit}


# ------------------------------------------------------------------ generator


def dense_layouts(rnd, shape, n):
    """random dense tiled-strided layouts of a shape: tile splits per dimension, a random nesting order of all tile
    dimensions, steps = running products (so the layout is a bijection onto 0..N-1)."""
    out = []

    def splits(d):
        res = [[d]]
        for a in range(2, d):
            if d % a == 0:
                res.append([d // a, a])
                for b in range(2, a):
                    if a % b == 0:
                        res.append([d // a, a // b, b])
        return res

    for _ in range(n):
        tiles = [rnd.choice(splits(d)) for d in shape]
        flat = [(d, k) for d, t in enumerate(tiles) for k in range(len(t))]
        rnd.shuffle(flat)
        step = {}
        cur = 1
        for d, k in flat:
            step[(d, k)] = cur
            cur *= tiles[d][k]
        txt = ", ".join("[" + ", ".join(str(b) for b in t) + "] -> (" + ", ".join(str(step[(d, k)]) for k in range(len(t))) + ")" for d, t in enumerate(tiles))
        out.append(f"#tsl.tsl<{txt}>")
    return out


class Gen:
    def __init__(self, rnd):
        self.rnd = rnd
        self.tag = 0
        self.vals = {"%b0": "F", "%b1": "F", "%a0": "F", "%a1": "F", "%g0": "F", "%c0": "F"}
        self.ro = {"%g0", "%c0"}
        self.views = []

    def newtag(self):
        self.tag += 1
        return self.tag

    def pick(self, cls, writable=False):
        c = [v for v, t in self.vals.items() if t == cls and not (writable and v in self.ro)]
        return self.rnd.choice(c) if c else None

    def acc(self):
        cls = "T" if (self.rnd.random() < 0.3 and any(t == "T" for t in self.vals.values())) else "F"
        o = self.pick(cls, writable=True)
        if o is None:
            cls = "F"
            o = self.pick("F", writable=True)
        return (self.rnd.choice(["gen", "gen", "dart"]), self.pick(cls), self.pick(cls), o, cls, self.newtag())

    def stmt(self, depth):
        r = self.rnd.random()
        if depth > 0 and r < 0.13:
            return ("for", [self.stmt(depth - 1) for _ in range(self.rnd.randint(1, 3))])
        if depth > 0 and r < 0.22:
            return ("if", self.rnd.randrange(2), [self.stmt(depth - 1) for _ in range(self.rnd.randint(1, 2))],
                    [self.stmt(depth - 1) for _ in range(self.rnd.randint(1, 2))] if self.rnd.random() < 0.6 else None)
        if r < 0.75:
            return self.acc()
        if r < 0.87:
            cls = "F"
            return ("copy", self.pick(cls), self.pick(cls, writable=True), self.newtag())
        return ("use", self.pick("F", writable=True), self.newtag())

    def program(self, family="mixed"):
        # views of arguments, allocations, the global and the constant (static and dynamic row offsets)
        tiles = family == "constant_tiles"  # a constant tiled by several views, each feeding accelerator operations
        tile_base = self.rnd.choice(["%g0", "%g0", "%c0"])
        for k in range(self.rnd.choice([2, 3]) if tiles else self.rnd.choice([0, 1, 1, 2, 3])):
            base = tile_base if tiles and k < 2 else self.rnd.choice(["%b0", "%b1", "%a0", "%g0", "%g0", "%c0"])
            off = self.rnd.choice(["0", "2", "%o0"]) if base in ("%b0", "%b1", "%a0") else self.rnd.choice(["0", "2"])
            nm = f"%v{k}"
            self.views.append((nm, base, off))
            self.vals[nm] = "T"
            if base in self.ro:
                self.ro.add(nm)
        body = [self.stmt(2) for _ in range(self.rnd.randint(2, 5))]
        if family == "branch_writers":
            # one buffer used at function level first and then written in both branches of one conditional (or in a
            # conditional nested in a loop), followed by a reader
            x = self.rnd.choice(["%b0", "%b1", "%a0"])
            def w():
                return (self.rnd.choice(["gen", "dart"]), self.pick("F"), self.pick("F"), x, "F", self.newtag())
            first = (self.rnd.choice(["gen", "dart"]), x, self.pick("F"), self.pick("F", writable=True), "F", self.newtag()) if self.rnd.random() < 0.5 else w()
            cond = ("if", self.rnd.randrange(2), [w()], [w()])
            if self.rnd.random() < 0.3:
                cond = ("for", [cond])
            tail = [("use", x, self.newtag())] if self.rnd.random() < 0.5 else [(self.rnd.choice(["gen", "dart"]), x, x, self.pick("F", writable=True), "F", self.newtag())]
            body = [first, cond] + tail + body[:2]
        if family == "hoisted_casts":
            # one buffer written two regions below function level (inner trip count depends on the outer counter), then
            # read, then written again; the casts of this family are shared and sit at function level
            # (only allocations get shared casts: their other consumers are kept out of this family, so that "filled
            # before the first reader, copied back after the last writer" is all that coherence needs)
            x = self.rnd.choice(["%a0", "%a1"])
            mentions = lambda st: any(mentions(t) for t in st if isinstance(t, (list, tuple))) or any(t in ("%a0", "%a1") or (isinstance(t, str) and t in alloc_views) for t in st)
            alloc_views = {nm for nm, base, off in self.views if base in ("%a0", "%a1")}
            def prune(stmts):
                out = []
                for st in stmts:
                    if st[0] in ("use", "copy") and mentions(st):
                        continue
                    if st[0] in ("gen", "dart") and any(t in alloc_views for t in st):
                        continue
                    if st[0] == "for":
                        st = ("for", prune(st[1])) + tuple(st[2:])
                    elif st[0] == "if":
                        st = ("if", st[1], prune(st[2]), prune(st[3]) if st[3] is not None else None)
                    out.append(st)
                return out
            body = prune(body)
            def w():
                return (self.rnd.choice(["gen", "dart"]), self.pick("F"), self.pick("F"), x, "F", self.newtag())
            def r():
                return (self.rnd.choice(["gen", "dart"]), x, self.pick("F"), self.rnd.choice([v for v in ("%b0", "%b1", "%a0", "%a1") if v != x]), "F", self.newtag())
            inner = self.rnd.choice([("for", [w()], "tri"), ("for", [w()]), ("if", self.rnd.randrange(2), [w()], None), ("for", [w(), r()], "tri")])
            outer = self.rnd.choice([("for", [inner]), ("for", [inner, r()]), ("if", self.rnd.randrange(2), [inner], None), ("for", [r(), inner])])
            tail = [r()] + ([w()] if self.rnd.random() < 0.7 else [])
            body = body[1:2] + [outer] + tail + body[:1]
        if tiles:
            pre = []
            for nm, base, off in self.views[:2]:
                if self.rnd.random() < 0.8:
                    o = self.pick("T", writable=True) or "%b0"
                    other = self.pick("T")
                    if self.vals.get(o) == "T":
                        pre.append((self.rnd.choice(["gen", "dart"]), nm, other, o, "T", self.newtag()))
            body = pre + body
        ret = self.rnd.choice([None, None, "%a1", "%b0"])
        return (tuple(self.views), body, ret)


def type_of(gen_views, v):
    for nm, base, off in gen_views:
        if nm == v:
            return tile_t("?" if off.startswith("%") else int(off) * C)
    return FULL


def render(prog):
    views, body, ret = prog
    L = []
    n = [0]
    ivs = []
    ty = lambda v: type_of(views, v)

    def emit(stmts, ind):
        P = "  " * ind
        for s in stmts:
            if s[0] in ("gen", "dart"):
                L.append(P + (G2 if s[0] == "gen" else D2).format(i0=s[1], i1=s[2], o=s[3], t=s[5], t0=ty(s[1]), t1=ty(s[2]), t2=ty(s[3]), ind=P))
            elif s[0] == "copy":
                L.append(P + f'"memref.copy"({s[1]}, {s[2]}) {{tag = {s[3]} : i32}} : ({ty(s[1])}, {ty(s[2])}) -> ()')
            elif s[0] == "use":
                L.append(P + f'"test.op"({s[1]}) {{tag = {s[2]} : i32}} : ({ty(s[1])}) -> ()')
            elif s[0] == "for":
                n[0] += 1
                # "tri": the lower bound is the enclosing loop's counter, so the trip count differs between outer iterations
                lo = ivs[-1] if len(s) > 2 and s[2] == "tri" and ivs else "%lb"
                L.append(P + f"scf.for %i{n[0]} = {lo} to %ub step %st {{")
                ivs.append(f"%i{n[0]}")
                emit(s[1], ind + 1)
                ivs.pop()
                L.append(P + "}")
            elif s[0] == "if":
                L.append(P + f"scf.if %cond{s[1]} {{")
                emit(s[2], ind + 1)
                if s[3] is not None:
                    L.append(P + "} else {")
                    emit(s[3], ind + 1)
                L.append(P + "}")

    emit(body, 2)
    data = ", ".join("[" + ", ".join(str(100 + r * C + c) for c in range(C)) + "]" for r in range(R))
    cdata = ", ".join("[" + ", ".join(str(200 + r * C + c) for c in range(C)) + "]" for r in range(R))
    vw = "\n".join(f"    {nm} = memref.subview {base}[{off}, 0] [2, {C}] [1, 1] : {FULL} to {ty(nm)}" for nm, base, off in views)
    rett = f" -> {FULL}" if ret else ""
    retv = f" {ret} : {FULL}" if ret else ""
    return f"""
builtin.module {{
  "memref.global"() <{{alignment = 64 : i64, constant, initial_value = dense<[{data}]> : tensor<{R}x{C}xi32>, sym_name = "g0", sym_visibility = "private", type = {FULL}}}> : () -> ()
  func.func public @f(%b0 : {FULL}, %b1 : {FULL}, %o0 : index, %lb : index, %ub : index, %st : index, %cond0 : i1, %cond1 : i1){rett} {{
    %g0 = memref.get_global @g0 : {FULL}
    %c0 = arith.constant dense<[{cdata}]> : {FULL}
    %a0 = memref.alloc() : {FULL}
    %a1 = memref.alloc() : {FULL}
    "memref.copy"(%b0, %a0) {{tag = 901 : i32}} : ({FULL}, {FULL}) -> ()
    "memref.copy"(%b1, %a1) {{tag = 902 : i32}} : ({FULL}, {FULL}) -> ()
{vw}
{chr(10).join(L)}
    func.return{retv}
  }}
}}
"""


def insert_layout_casts(main, m, rnd, share, hoist=False):
    """stand-in for set-memory-layout: put a snax.layout_cast to a dense tiled-strided layout in front of some operands
    of the accelerator operations (one cast per operand and operation, inserted directly before the operation)."""
    from xdsl.dialects import builtin, memref
    from xdsl.parser import Parser
    from xdsl.rewriter import InsertPoint, Rewriter

    from snaxc.dialects.snax import LayoutCast

    n = 0
    if hoist:
        # one cast per buffer, shared by all accelerator operations that use it, at function level in front of the
        # statement that contains the first of them (what hoisting / CSE of the per-operation casts leaves behind)
        f = [g for g in irsym.module_funcs(m) if g.sym_name.data == "f"][0]
        top = f.body.blocks[0]
        seen = {}
        for op in list(m.walk()):
            if op.name in ("linalg.generic", "dart.operation"):
                for i, o in enumerate(op.operands):
                    if not isinstance(o.type, builtin.MemRefType):
                        continue
                    if o not in seen:
                        if not (isinstance(o.owner, memref.AllocOp) and o.owner.parent_block() is top) or rnd.random() < 0.2:
                            seen[o] = None
                        else:
                            shape = tuple(o.type.get_shape())
                            lay = Parser(main.ctx, rnd.choice(share[shape])).parse_attribute()
                            lc = LayoutCast.from_type_and_target_layout(o, lay)
                            anc = op
                            while anc.parent_block() is not top:
                                anc = anc.parent_op()
                            Rewriter.insert_op(lc, InsertPoint.before(anc))
                            seen[o] = lc.dest
                            n += 1
                    if seen[o] is not None:
                        op.operands[i] = seen[o]
    for op in list(m.walk()):
        if op.name in ("linalg.generic", "dart.operation"):
            for i, o in enumerate(op.operands):
                if not isinstance(o.type, builtin.MemRefType) or rnd.random() < 0.45 or (hoist and o.owner.name == "snax.layout_cast"):
                    continue
                shape = tuple(o.type.get_shape())
                lay = Parser(main.ctx, rnd.choice(share[shape])).parse_attribute()
                lc = LayoutCast.from_type_and_target_layout(o, lay)
                Rewriter.insert_op(lc, InsertPoint.before(op))
                op.operands[i] = lc.dest
                n += 1
    return n


def mark_casts(m):
    """name every cast value (the name is inherited by the allocation that replaces it) and find memory-space casts
    that duplicate an earlier cast of the same value although that one is defined before all their users: a buffer
    then gets two stand-ins where one would do.  Only used to NAME the situation of a failing data obligation."""
    def before(a, user):
        blk = a.parent_block()
        anc = user
        while anc is not None and anc.parent_block() is not blk:
            anc = anc.parent_op()
        if anc is None:
            return False
        nxt = a.next_op
        while nxt is not None:
            if nxt is anc:
                return True
            nxt = nxt.next_op
        return False

    casts = [op for op in m.walk() if op.name in ("memref.memory_space_cast", "snax.layout_cast") and op.results[0].uses]
    redundant = set()
    for n, op in enumerate(casts):
        op.results[0].name_hint = f"si{n}"
    msc = [op for op in casts if op.name == "memref.memory_space_cast"]
    for i, a in enumerate(msc):
        for b in msc[i + 1:]:
            if a.operands[0] is b.operands[0] and a.results[0].type == b.results[0].type and all(before(a, u.operation) for u in b.results[0].uses):
                redundant.add(b.results[0].name_hint)
    # casts whose first user (in program order) only writes them and sits two or more regions below the cast: the
    # fill belongs at the level of the cast, in front of everything
    for op in casts:
        users = {u.operation: u for u in op.results[0].uses}
        first = next((o for o in op.parent_block().walk() if o in users), None)
        if first is None or first.name not in ("linalg.generic", "dart.operation") or op.results[0] in first.inputs:
            continue
        depth, anc = 0, first
        while anc is not None and anc.parent_block() is not op.parent_block():
            anc = anc.parent_op()
            depth += 1
        if depth >= 2:
            redundant.add("deepwriter:" + op.results[0].name_hint)
    return redundant


def run_machine(m, name, args_roots, K, after, o0, lbubst, redundant=()):
    M = Machine(name, None)
    M.shadow.redundant = set(redundant)
    I = irsym.Interp(K=K, intmode=True, handlers=None, name=name)
    I.handlers.update(handlers(M, m, after))
    f = [g for g in irsym.module_funcs(m) if g.sym_name.data == "f"][0]
    blk = f.body.blocks[0]
    args = []
    for k, a in enumerate(blk.args[:2]):
        fn_ = addr_fn(a.type)
        if fn_ is None:
            raise irsym.InterpError("argument layout not executable")
        root = M.new_root(f"arg{k}", args_roots[k])
        args.append(View(root, dims_of(a.type), fn_, f"arg{k}"))
    ret = I.run_func(f, args + [o0] + list(lbubst) + [z3.Int("c0"), z3.Int("c1")])
    M.final_taint = [M.shadow.read(v) for v in args]
    finals = [M.logical(v) for v in args]
    return M, finals, f


def case_prog(case, K=2):
    from xdsl.dialects import builtin
    from xdsl.parser import Parser

    prog, seed, clear = case[:3]
    hoist = len(case) > 3 and case[3]
    src = render(prog)

    def fn():
        E = eng()
        rnd = random.Random(seed)
        main = xshim.make_main()
        m1 = Parser(main.ctx, src).parse_module()
        m1.verify()
        m2 = m1.clone()
        xshim.apply_passes(m2, "alloc-to-global,set-memory-space", main)
        share = {(R, C): dense_layouts(rnd, (R, C), 3), (2, C): dense_layouts(rnd, (2, C), 3)}
        ncast = insert_layout_casts(main, m2, rnd, share, hoist)
        m2.verify()
        staged = str(m2)
        redundant = mark_casts(m2)
        xshim.apply_passes(m2, "realize-memref-casts", main)
        # static part of the property
        from snaxc.util.snax_memory import L1, L3

        f2 = [g for g in irsym.module_funcs(m2) if g.sym_name.data == "f"][0]
        bad = []
        for op in m2.walk():
            if op.name in ("linalg.generic", "dart.operation"):
                for o in op.operands:
                    if isinstance(o.type, builtin.MemRefType) and o.type.memory_space != L1.attribute:
                        bad.append(str(o.type))
        E.oblige("spaces:every_accelerator_operand_is_in_local_memory", not bad, dict(operands=bad[:4]))
        ft = f2.function_type
        ext = [t for t in list(ft.inputs) + list(ft.outputs) if isinstance(t, builtin.MemRefType)]
        E.oblige("spaces:function_boundary_keeps_external_space_and_layout",
                 all(t.memory_space == L3.attribute and isinstance(t.layout, builtin.NoneAttr) for t in ext), dict(types=[str(t) for t in ext]))
        if clear:
            xshim.apply_passes(m2, "clear-memory-space", main)
        try:
            m2.verify()
        except Exception as e:
            E.oblige("result:verifies", False, dict(error=str(e)[:300]))
            return
        o0 = z3.Int("o0")
        lb, ub, st = z3.Int("lb"), z3.Int("ub"), z3.Int("st")
        E.assume(z3.And(o0 >= 0, o0 <= 2, st > 0, st < 8, lb >= 0, lb < 8, ub >= 0, ub < 8))
        roots = [z3.Array(f"in{k}", z3.IntSort(), z3.IntSort()) for k in range(2)]
        M1, fin1, _ = run_machine(m1, "before", roots, K, False, o0, (lb, ub, st))
        try:
            M2, fin2, _ = run_machine(m2, "after", roots, K, True, o0, (lb, ub, st), redundant)
        except irsym.Undefined as e:
            E.oblige("result:values_defined_before_use", False, dict(error=str(e)[:300]))
            return
        for nm, why in M2.problems:
            E.oblige(nm, False, dict(why=why))
        ev1, ev2 = M1.events, M2.events
        E.oblige("data:same_sequence_of_consumers", [e[:2] for e in ev1] == [e[:2] for e in ev2],
                 dict(before=[e[:2] for e in ev1][:20], after=[e[:2] for e in ev2][:20]))
        for (k1, t1, v1, _), (k2, t2, v2, taints) in zip(ev1, ev2):
            if (k1, t1) != (k2, t2):
                break
            for n_op, (a, b) in enumerate(zip(v1, v2)):
                what = {"acc": "accelerator_operation_reads_the_original_data", "use": "other_consumer_reads_the_original_data",
                        "return": "returned_buffer_holds_the_original_data"}[k1]
                E.oblige("data:" + what, z3.And(*[x == y for x, y in zip(a, b)]) if len(a) == len(b) else False, dict(tag=t1, operand=n_op, situation=M2.shadow.names(taints[n_op])))
        for k, (a, b) in enumerate(zip(fin1, fin2)):
            E.oblige("data:argument_buffers_hold_the_same_values_at_the_end", z3.And(*[x == y for x, y in zip(a, b)]), dict(argument=k, situation=M2.shadow.names(M2.final_taint[k])))
        E.oblige("explored", True)

    def replay(f):
        ok, d = replay_pinned(fn, f)
        d["program"] = src
        d["case"] = repr(case)
        return ok, d

    def sig(f, v):
        hz = (f.get("info") or {}).get("situation")
        if f["name"].startswith("data:") and hz:
            return "data:stand_in_buffer_and_original_disagree|" + "+".join(hz)
        return f["name"]

    return run_case(fn, replay, signature=sig, sample=dict(program=str(prog)[:300], seed=seed), key=str(case), max_paths=120)


# ------------------------------------------------------------------ constants re-laid-out at compile time


def case_relayout(case):
    """transform_constant on a tensor with DISTINCT element values (the function never looks at the values: numpy reshape /
    transpose only) - for a symbolic logical index the transformed data holds, at the address the layout prescribes, the
    element of the source at that index."""
    from xdsl.dialects import builtin
    from xdsl.parser import Parser

    from snaxc.transforms.realize_memref_casts import transform_constant

    shape, layout_txt, ety, kind = case

    def fn():
        E = eng()
        main = xshim.make_main()
        lay = Parser(main.ctx, layout_txt).parse_attribute()
        et = builtin.IntegerType(ety)
        n = 1
        for d in shape:
            n *= d
        vals = [(3 * k + 1) % (1 << (ety - 1)) for k in range(n)]
        assert len(set(vals)) == n
        if kind == "tensor":
            src_t = builtin.TensorType(et, shape)
        else:
            src_t = builtin.MemRefType(et, shape)
        src = builtin.DenseIntOrFPElementsAttr.from_list(src_t, vals)
        new = transform_constant(src, lay)
        if new is None:
            E.oblige("relayout:dense_static_layout_is_applied", False, dict(layout=layout_txt))
            return
        out = [int(v) for v in new.get_values()]
        E.oblige("relayout:same_number_of_elements", len(out) == n, dict(n=n, got=len(out)))
        if len(out) != n:
            return
        E.oblige("relayout:result_type_carries_the_layout", new.type.layout == lay and tuple(new.type.get_shape()) == tuple(shape), dict(type=str(new.type)))
        A = z3.K(z3.IntSort(), z3.IntVal(-1))
        for k, v in enumerate(out):
            A = z3.Store(A, k, v)
        S = z3.K(z3.IntSort(), z3.IntVal(-2))
        for k, v in enumerate(vals):
            S = z3.Store(S, k, v)
        idx = [z3.Int(f"i{d}") for d in range(len(shape))]
        E.assume(z3.And(*[z3.And(i >= 0, i < b) for i, b in zip(idx, shape)]))
        f = addr_fn(builtin.MemRefType(et, shape, lay))
        rm = addr_fn(builtin.MemRefType(et, shape))
        E.oblige("relayout:element_at_prescribed_address_is_the_logical_element", z3.Select(A, f(idx)) == z3.Select(S, rm(idx)), dict(layout=layout_txt, shape=shape))
        E.oblige("explored", True)

    def replay(f):
        return replay_pinned(fn, f)

    return run_case(fn, replay, signature=lambda f, v: f["name"], sample=dict(shape=shape, layout=layout_txt, bits=ety), key=str(case))


def case_global_relayout(case):
    """realize-memref-casts on a module whose accelerator operand is a constant memref.global reached through a layout
    cast (optionally behind a memory-space cast): whatever global the operand reads afterwards must hold, at the
    address its layout prescribes, the logical element of the original initial value - for every element type."""
    from xdsl.dialects import builtin, memref
    from xdsl.parser import Parser

    shape, layout_txt, ety, via_msc = case[:4]
    second = len(case) > 4 and case[4]  # a second memref.get_global of the same symbol, read by another consumer
    n = 1
    for d in shape:
        n *= d
    isf = ety.startswith("f")
    vals = [(3 * k + 1) % 120 + (0.5 if isf else 0) for k in range(n)]
    shp = "x".join(str(d) for d in shape)
    lit = lambda k: (f"{vals[k]:.1f}" if isf else str(vals[k]))

    def nest(dims, off):
        if len(dims) == 1:
            return "[" + ", ".join(lit(off + k) for k in range(dims[0])) + "]"
        sub = 1
        for d in dims[1:]:
            sub *= d
        return "[" + ", ".join(nest(dims[1:], off + k * sub) for k in range(dims[0])) + "]"

    FT = f"memref<{shp}x{ety}>"
    LT = f"memref<{shp}x{ety}, {layout_txt}>"
    if via_msc:
        chain = f"""    %m = "memref.memory_space_cast"(%g) : ({FT}) -> memref<{shp}x{ety}, "L1">
    %c = "snax.layout_cast"(%m) : (memref<{shp}x{ety}, "L1">) -> memref<{shp}x{ety}, {layout_txt}, "L1">"""
        LT = f'memref<{shp}x{ety}, {layout_txt}, "L1">'
    else:
        chain = f'    %c = "snax.layout_cast"(%g) : ({FT}) -> {LT}'
    src = f"""
builtin.module {{
  "memref.global"() <{{alignment = 64 : i64, constant, initial_value = dense<{nest(list(shape), 0)}> : tensor<{shp}x{ety}>, sym_name = "w", sym_visibility = "private", type = {FT}}}> : () -> ()
  func.func public @f() {{
    %g = memref.get_global @w : {FT}
{chain}
    "test.op"(%c) {{tag = 1 : i32}} : ({LT}) -> ()
SECOND_REFERENCE
    func.return
  }}
}}
"""
    src = src.replace("SECOND_REFERENCE", f'    %g2 = memref.get_global @w : {FT}\n    "test.op"(%g2) {{tag = 2 : i32}} : ({FT}) -> ()' if second else "")

    def fn():
        E = eng()
        main = xshim.make_main()
        m = Parser(main.ctx, src).parse_module()
        m.verify()
        xshim.apply_passes(m, "realize-memref-casts", main)
        m.verify()
        # every reference to a global names a global that exists, with the type it is read as
        globs = {o.sym_name.data: o for o in m.walk() if isinstance(o, memref.GlobalOp)}
        for gg_ in [o for o in m.walk() if isinstance(o, memref.GetGlobalOp)]:
            nm_ = gg_.name_.string_value()
            E.oblige("global:every_reference_names_an_existing_global_of_its_type", nm_ in globs and globs[nm_].type == gg_.results[0].type,
                     dict(symbol=nm_, existing=sorted(globs)))
        use = [o for o in m.walk() if o.name == "test.op"][0]
        v = use.operands[0]
        hops = []
        while not isinstance(v.owner, memref.GetGlobalOp):
            if v.owner.name not in ("memref.memory_space_cast",):
                # the cast was kept (copy at run time): nothing was re-laid-out at compile time
                E.oblige("global:relayout_applied_or_cast_kept", v.owner.name in ("memref.alloc", "snax.layout_cast"), dict(owner=v.owner.name))
                E.oblige("explored", True)
                return
            hops.append(v.owner.name)
            v = v.owner.operands[0]
        gname = v.owner.name_.string_value()
        g = [o for o in m.walk() if isinstance(o, memref.GlobalOp) and o.sym_name.data == gname]
        E.oblige("global:operand_reads_an_existing_global", len(g) == 1, dict(name=gname))
        if len(g) != 1:
            return
        g = g[0]
        init = g.initial_value
        has = isinstance(init, builtin.DenseIntOrFPElementsAttr)
        E.oblige("global:re_laid_out_global_keeps_its_initial_value", has, dict(initial_value=str(init)[:60], element_type=ety))
        if not has:
            return
        out = [float(x) if isf else int(x) for x in init.get_values()]
        E.oblige("global:same_number_of_elements", len(out) == n, dict(n=n, got=len(out)))
        if len(out) != n:
            return
        sort = z3.RealSort() if isf else z3.IntSort()
        mk = (lambda x: z3.RealVal(str(x))) if isf else z3.IntVal
        A = z3.K(z3.IntSort(), mk(-1))
        for k, x in enumerate(out):
            A = z3.Store(A, k, mk(x))
        S = z3.K(z3.IntSort(), mk(-2))
        for k, x in enumerate(vals):
            S = z3.Store(S, k, mk(x))
        idx = [z3.Int(f"i{d}") for d in range(len(shape))]
        E.assume(z3.And(*[z3.And(i >= 0, i < b) for i, b in zip(idx, shape)]))
        f = addr_fn(v.type)
        rm = addr_fn(builtin.MemRefType(v.type.element_type, shape))
        E.oblige("global:element_at_prescribed_address_is_the_logical_element", z3.Select(A, f(idx)) == z3.Select(S, rm(idx)), dict(layout=str(v.type.layout), shape=shape, element_type=ety))
        E.oblige("explored", True)

    def replay(f):
        return replay_pinned(fn, f)

    return run_case(fn, replay, signature=lambda f, v: f["name"], sample=dict(shape=shape, layout=layout_txt, element_type=ety, via_memory_space_cast=via_msc), key=str(case))


def digit_form(t, prefix, E):
    """(index expressions, address) of a statically tiled layout written over one digit variable per tile level, so that
    no division is needed: x_d = sum digit * inner size, address = sum digit * step. None for other layouts."""
    from snaxc.dialects.tsl import TiledStridedLayoutAttr

    if not isinstance(t.layout, TiledStridedLayoutAttr):
        return None
    ts = [[(s_.step, s_.bound) for s_ in tstride.strides] for tstride in t.layout.data.tstrides]
    if any(st is None or b is None for d in ts for st, b in d):
        return None
    shape = dims_of(t)
    idx, addr = [], z3.IntVal(0)
    for d, levels in enumerate(ts):
        inner, x = 1, z3.IntVal(0)
        for k in range(len(levels) - 1, -1, -1):
            st, b = levels[k]
            dg = z3.Int(f"{prefix}{d}_{k}")
            hi = b if k > 0 else -(-shape[d] // inner)
            E.assume(z3.And(dg >= 0, dg < hi))
            x = x + dg * inner
            addr = addr + dg * st
            inner *= b
        E.assume(x < shape[d])
        idx.append(x)
    return idx, addr


def case_subview_global(case):
    """A global whose only use is one tile subview feeding a layout cast: realize-memref-casts gives the global a new
    layout in which that tile has the requested layout. The new layout must keep distinct elements apart, the tile
    view's type must address exactly the viewed elements, and an initial value must end up where the layout says."""
    from xdsl.dialects import builtin, memref
    from xdsl.parser import Parser

    gshape, tile, layout_txt, offs, init = case
    G, Tl = "x".join(map(str, gshape)), "x".join(map(str, tile))
    n = gshape[0] * gshape[1]
    vals = [(7 * k + 3) % 1000 for k in range(n)]
    rows = ", ".join("[" + ", ".join(str(vals[r * gshape[1] + c]) for c in range(gshape[1])) + "]" for r in range(gshape[0]))
    iv = f"initial_value = dense<[{rows}]> : tensor<{G}xi32>" if init else "initial_value"
    VT = f"memref<{Tl}xi32, strided<[{gshape[1]}, 1], offset: {offs[0] * gshape[1] + offs[1]}>>"
    CT = f"memref<{Tl}xi32, {layout_txt}>"
    src = f"""
builtin.module {{
  "memref.global"() <{{alignment = 64 : i64, {iv}, sym_name = "w", sym_visibility = "private", type = memref<{G}xi32>}}> : () -> ()
  func.func public @f() {{
    %g = memref.get_global @w : memref<{G}xi32>
    %v = memref.subview %g[{offs[0]}, {offs[1]}] [{tile[0]}, {tile[1]}] [1, 1] : memref<{G}xi32> to {VT}
    %c = "snax.layout_cast"(%v) : ({VT}) -> {CT}
    "test.op"(%c) {{tag = 1 : i32}} : ({CT}) -> ()
    func.return
  }}
}}
"""

    def fn():
        E = eng()
        main = xshim.make_main()
        m = Parser(main.ctx, src).parse_module()
        m.verify()
        xshim.apply_passes(m, "realize-memref-casts", main)
        m.verify()
        use = [o for o in m.walk() if o.name == "test.op"][0]
        v = use.operands[0]
        if not isinstance(v.owner, memref.SubviewOp) or not isinstance(v.owner.source.owner, memref.GetGlobalOp):
            # not re-laid-out at compile time (copy at run time): covered by the program section
            E.oblige("subview_global:relayout_or_run_time_copy", v.owner.name in ("memref.alloc", "snax.layout_cast", "memref.subview"), dict(owner=v.owner.name))
            E.oblige("explored", True)
            return
        sv = v.owner
        gg = sv.source.owner
        gname = gg.name_.string_value()
        glob = [o for o in m.walk() if isinstance(o, memref.GlobalOp) and o.sym_name.data == gname][0]
        fg = addr_fn(gg.results[0].type)
        fv = addr_fn(v.type)
        E.oblige("subview_global:layouts_static", fg is not None and fv is not None, dict(global_type=str(gg.results[0].type), view_type=str(v.type)))
        if fg is None or fv is None:
            return
        dx, dy = digit_form(gg.results[0].type, "dx", E), digit_form(gg.results[0].type, "dy", E)
        if dx is None:
            x = [z3.Int(f"x{d}") for d in range(2)]
            y = [z3.Int(f"y{d}") for d in range(2)]
            for a, bnd in zip(x + y, list(gshape) + list(gshape)):
                E.assume(z3.And(a >= 0, a < bnd))
            ax, ay = fg(x), fg(y)
        else:
            (x, ax), (y, ay) = dx, dy
        E.oblige("subview_global:new_layout_keeps_distinct_elements_apart", z3.Implies(ax == ay, z3.And(x[0] == y[0], x[1] == y[1])),
                 dict(layout=str(gg.results[0].type.layout), shape=gshape))
        i = [z3.Int(f"i{d}") for d in range(2)]
        for a, bnd in zip(i, tile):
            E.assume(z3.And(a >= 0, a < bnd))
        so = [o if o >= 0 else None for o in sv.static_offsets.get_values()]
        # relative to the tile's first element: the pointer of a view is derived from the subview's offsets
        # (convert-memref-to-arith, C10), the layout in its type describes positions from there
        dv, dg = digit_form(v.type, "dv", E), digit_form(gg.results[0].type, "dg", E)
        if None in so:
            cond = z3.BoolVal(so == list(offs))
        elif dv is not None and dg is not None:
            (iv_, av), (xg, axg) = dv, dg
            cond = z3.Implies(z3.And(xg[0] == iv_[0] + so[0], xg[1] == iv_[1] + so[1]), av - fv([0, 0]) == axg - fg([so[0], so[1]]))
        else:
            zero = [z3.IntVal(0), z3.IntVal(0)]
            cond = fv(i) - fv(zero) == fg([i[0] + so[0], i[1] + so[1]]) - fg([z3.IntVal(so[0]), z3.IntVal(so[1])])
        E.oblige("subview_global:tile_view_addresses_the_viewed_elements", cond,
                 dict(view_type=str(v.type), global_layout=str(gg.results[0].type.layout), offsets=so))
        if init:
            ival = glob.initial_value
            has = isinstance(ival, builtin.DenseIntOrFPElementsAttr)
            E.oblige("subview_global:initial_value_kept", has, dict(initial_value=str(ival)[:40]))
            if has:
                out = [int(q) for q in ival.get_values()]
                A = z3.K(z3.IntSort(), z3.IntVal(-1))
                for k, q in enumerate(out):
                    A = z3.Store(A, k, q)
                S = z3.K(z3.IntSort(), z3.IntVal(-2))
                for k, q in enumerate(vals):
                    S = z3.Store(S, k, q)
                E.oblige("subview_global:element_at_prescribed_address_is_the_logical_element", z3.Select(A, ax) == z3.Select(S, x[0] * gshape[1] + x[1]))
        E.oblige("explored", True)

    return run_case(fn, lambda f: replay_pinned(fn, f), signature=lambda f, v: f["name"], sample=dict(case=str(case)), key=str(case))


def case_dynamic_shape(case):
    """A cast value with run-time sizes: the stand-in allocation must get the size of dimension d of the original for
    its d-th dimension (sizes are symbolic), and the copies go between the two."""
    from xdsl.dialects import memref
    from xdsl.parser import Parser

    shape, uses = case  # None = dynamic
    shp = "x".join("?" if d is None else str(d) for d in shape)
    T3, T1 = f'memref<{shp}xi32, "L3">', f'memref<{shp}xi32, "L1">'
    body = []
    if "in" in uses:
        body.append(f'    "test.op"(%c) {{tag = 1 : i32}} : ({T1}) -> ()')
    src = f"""
builtin.module {{
  func.func public @f(%a : {T3}) {{
    %c = "memref.memory_space_cast"(%a) : ({T3}) -> {T1}
{chr(10).join(body)}
    func.return
  }}
}}
"""

    def fn():
        E = eng()
        main = xshim.make_main()
        m = Parser(main.ctx, src).parse_module()
        m.verify()
        xshim.apply_passes(m, "realize-memref-casts", main)
        m.verify()
        sizes = [z3.Int(f"n{d}") if sd is None else z3.IntVal(sd) for d, sd in enumerate(shape)]
        for v in sizes:
            E.assume(v >= 1)
        I = irsym.Interp(intmode=True)
        allocs = []

        def h_dim(I, op):
            idx = I.get(op.index)
            idx = z3.simplify(idx).as_long() if z3.is_expr(idx) else int(idx)
            I.set(op.results[0], sizes[idx] if 0 <= idx < len(sizes) else z3.IntVal(-1))

        def h_alloc(I, op):
            dyn = iter(I.get(o) for o in op.dynamic_sizes)
            got = [next(dyn) if d == -1 or d is None or d < 0 else z3.IntVal(d) for d in op.results[0].type.get_shape()]
            allocs.append(got)
            I.set(op.results[0], Opaque("standin"))

        I.handlers.update({"memref.dim": h_dim, "memref.alloc": h_alloc, "memref.copy": lambda I, op: None, "test.op": lambda I, op: None,
                           "memref.memory_space_cast": lambda I, op: I.set(op.results[0], I.get(op.operands[0])), "memref.dealloc": lambda I, op: None})
        f = [g for g in irsym.module_funcs(m) if g.sym_name.data == "f"][0]
        I.run_func(f, [Opaque("arg")])
        E.oblige("dynamic_shape:one_stand_in", len(allocs) == 1, dict(allocations=len(allocs)))
        for got in allocs:
            E.oblige("dynamic_shape:stand_in_rank", len(got) == len(sizes))
            for d, (g_, w_) in enumerate(zip(got, sizes)):
                E.oblige("dynamic_shape:stand_in_has_the_size_of_the_original_in_every_dimension", g_ == w_, dict(dimension=d, shape=shp))
        E.oblige("explored", True)

    return run_case(fn, lambda f: replay_pinned(fn, f), signature=lambda f, v: f["name"], sample=dict(shape=shp), key=str(case))


def case_transpose(case):
    """RemoveTransposeConstants.transpose_tuple on symbolic contents: out[i][j] == in[j][i] for every position."""
    from snaxc.transforms.frontend.remove_transpose_constants import RemoveTransposeConstants

    rows, cols = case

    def fn():
        E = eng()
        vals = [sym.sym(f"x{k}", -128, 127) for k in range(rows * cols)]
        out = RemoveTransposeConstants().transpose_tuple(vals, rows, cols)
        E.oblige("transpose:length", len(out) == rows * cols)
        for i in range(cols):
            for j in range(rows):
                E.oblige("transpose:out[i][j]_is_in[j][i]", out[i * rows + j] == vals[j * cols + i], dict(i=i, j=j))
        E.oblige("explored", True)

    return run_case(fn, lambda f: replay_pinned(fn, f), signature=lambda f, v: f["name"], sample=dict(rows=rows, cols=cols), key=str(case))


def case_transpose_pattern(case):
    """the whole pattern on a concrete constant with distinct values (dense attribute packing is C level)."""
    from xdsl.parser import Parser

    rows, cols = case[:2]
    yields = case[2] if len(case) > 2 else "in"  # "out": the body returns the init value - maps of a transpose, but no transpose
    data = ", ".join("[" + ", ".join(str(r * cols + c) for c in range(cols)) + "]" for r in range(rows))
    src = f"""
builtin.module {{
  func.func public @f() -> tensor<{cols}x{rows}xi8> {{
    %c = arith.constant dense<[{data}]> : tensor<{rows}x{cols}xi8>
    %e = tensor.empty() : tensor<{cols}x{rows}xi8>
    %t = linalg.generic {{indexing_maps = [affine_map<(d0, d1) -> (d1, d0)>, affine_map<(d0, d1) -> (d0, d1)>], iterator_types = ["parallel", "parallel"]}} ins(%c : tensor<{rows}x{cols}xi8>) outs(%e : tensor<{cols}x{rows}xi8>) {{
    ^bb0(%in : i8, %out : i8):
      linalg.yield %{yields} : i8
    }} -> tensor<{cols}x{rows}xi8>
    func.return %t : tensor<{cols}x{rows}xi8>
  }}
}}
"""

    def fn():
        from xdsl.pattern_rewriter import PatternRewriteWalker

        from snaxc.transforms.frontend.remove_transpose_constants import RemoveTransposeConstants

        E = eng()
        main = xshim.make_main()
        m = Parser(main.ctx, src).parse_module()
        PatternRewriteWalker(RemoveTransposeConstants(), apply_recursively=False).rewrite_module(m)
        consts = [op for op in m.walk() if op.name == "arith.constant"]
        gens = [op for op in m.walk() if op.name == "linalg.generic"]
        if yields == "out":
            ret = [op for op in m.walk() if op.name == "func.return"][0]
            E.oblige("transpose_pattern:generic_that_returns_its_init_value_is_not_folded", ret.operands[0].owner.name == "linalg.generic", dict(returned=ret.operands[0].owner.name))
            return
        E.oblige("transpose_pattern:folded", len(consts) == 1 and not gens, dict(module=str(m)[:300]))
        if len(consts) != 1 or gens:
            return
        out = [int(v) for v in consts[0].value.get_values()]
        i, j = z3.Int("i"), z3.Int("j")
        E.assume(z3.And(i >= 0, i < cols, j >= 0, j < rows))
        A = z3.K(z3.IntSort(), z3.IntVal(-1))
        for k, v in enumerate(out):
            A = z3.Store(A, k, v)
        E.oblige("transpose_pattern:out[i][j]_is_in[j][i]", z3.Select(A, i * rows + j) == j * cols + i, dict(rows=rows, cols=cols))
        E.oblige("transpose_pattern:type", tuple(consts[0].result.type.get_shape()) == (cols, rows))
        E.oblige("explored", True)

    return run_case(fn, lambda f: replay_pinned(fn, f), signature=lambda f, v: f["name"], sample=dict(rows=rows, cols=cols), key=str(case))


def run(chk):
    quick = chk.tier == "quick"
    rnd = random.Random(chk.seed)
    chk.functions = ["snaxc.transforms.set_memory_space.SetMemorySpace (all patterns)", "snaxc.transforms.realize_memref_casts.RealizeMemrefCastsPass (all patterns), transform_constant",
                     "snaxc.transforms.alloc_to_global.AllocToGlobal", "snaxc.transforms.clear_memory_space.ClearMemorySpace",
                     "snaxc.transforms.frontend.remove_transpose_constants.RemoveTransposeConstants"]
    chk.explanation = (
        "Translation validation on a buffer-contents machine. Generated functions (arguments, allocations, a constant global, a "
        "memref-typed constant, row-tile subviews with static and symbolic offsets, accelerator operations as linalg.generic and "
        "dart.operation in any order and inside loops with symbolic trip counts, copies and other consumers on the original "
        "buffers, optional returned buffer) are executed before and after alloc-to-global, set-memory-space, layout casts to random "
        "dense tiled-strided layouts on accelerator operands, realize-memref-casts (optionally clear-memory-space). Buffers are z3 "
        "arrays with symbolic initial contents; the after-program addresses every element through the layout of the value's type "
        "(an independent evaluation of tiled-strided/strided layouts), subview result types are proved consistent with the data's "
        "real position, and for every consumer z3 proves that it reads the same logical values as in the source program; final "
        "argument contents and returned buffers are equal; accelerator operands are in L1 and the function signature keeps L3 / "
        "row-major. transform_constant is decided per layout with a symbolic logical index over distinct element values "
        "(parametricity: numpy reshape/transpose never inspect values); transpose_tuple runs on symbolic contents.")
    chk.assumptions = ["accelerator operations overwrite their whole output operand and do not read it (as the upstream expectations for "
                       "realize-memref-casts assume); elementwise uninterpreted functions per operation",
                       "every allocation is initialised before use (contents of a fresh allocation are arbitrary)",
                       "layout casts are inserted like set-memory-layout does (one per operand and operation, directly before it), or, in one family, one shared cast per buffer at function level; "
                       "the layouts themselves are random dense tilings, not the ones an accelerator would request",
                       "loops unrolled to K=2", "one memref.get_global per global"]
    progs = []
    n = 140 if quick else 1600
    for k in range(n):
        g = Gen(rnd)
        fam = "constant_tiles" if k % 4 == 3 else "branch_writers" if k % 6 == 1 else "hoisted_casts" if k % 6 == 2 else "mixed"
        progs.append((g.program(fam), rnd.randrange(1 << 30), False) + ((True,) if fam == "hoisted_casts" else ()))
    # the same buffer written in both branches of one conditional: every combination of buffer, first use, nesting and
    # what follows, independent of the seed (only the layouts are drawn)
    for x in ("%b0", "%a0"):
        for first_writes in (False, True):
            for nested in (False, True):
                for tail in ("use", "read", "none"):
                    for cnd in (0, 1):
                        g = Gen(rnd)
                        w = lambda: ("dart" if nested else "gen", "%b1", "%a1", x, "F", g.newtag())
                        first = w() if first_writes else ("gen", x, "%b1", "%a1", "F", g.newtag())
                        cond = ("if", cnd, [w()], [w()])
                        if nested:
                            cond = ("for", [cond])
                        tl = [("use", x, g.newtag())] if tail == "use" else [("gen", x, x, "%a1", "F", g.newtag())] if tail == "read" else []
                        progs.append((((), [first, cond] + tl, rnd.choice([None, x if x != "%a0" else None])), rnd.randrange(1 << 30), False))
    chk.add_results("programs", pmap(case_prog, progs, chunks=4))
    lays = []
    shapes = [(4, 4), (2, 4), (4, 8), (8, 8), (4, 6), (16,), (2, 3, 4)]
    for shape in shapes:
        for txt in sorted(set(dense_layouts(rnd, shape, 6 if quick else 40))):
            lays.append((shape, txt, rnd.choice([8, 32]), rnd.choice(["tensor", "memref"])))
    chk.add_results("relayout", pmap(case_relayout, lays, chunks=4))
    glob = []
    for k, (shape, txt, _, _) in enumerate(lays):
        if len(shape) <= 2 and (not quick or k % 2 == 0):
            glob.append((shape, txt, ("i8", "i32", "f32", "f64", "i16", "f16", "index")[k % 7], k % 3 == 0))
    glob += [g_ + (True,) for g_ in glob[:4]]
    chk.add_results("global_relayout", pmap(case_global_relayout, glob, chunks=4))
    sg = []
    for gshape, tile, lay in (((16, 16), (8, 8), "#tsl.tsl<[8] -> (8), [8] -> (1)>"), ((16, 16), (8, 8), "#tsl.tsl<[2, 4] -> (32, 4), [2, 4] -> (16, 1)>"),
                              ((16, 8), (8, 8), "#tsl.tsl<[8] -> (1), [8] -> (8)>"), ((8, 32), (8, 8), "#tsl.tsl<[8] -> (8), [2, 4] -> (4, 1)>"),
                              ((24, 16), (8, 8), "#tsl.tsl<[8] -> (8), [8] -> (1)>"), ((16, 16), (4, 8), "#tsl.tsl<[4] -> (8), [8] -> (1)>")):
        for offs in ((0, 0), (tile[0] if gshape[0] > tile[0] else 0, tile[1] if gshape[1] > tile[1] else 0)):
            sg.append((gshape, tile, lay, offs, False))
    # tiles that do not start on a tile boundary of the new layout
    sg.append(((16, 16), (8, 16), "#tsl.tsl<[8] -> (8), [2, 8] -> (64, 1)>", (4, 0), False))
    sg.append(((16, 16), (8, 8), "#tsl.tsl<[8] -> (8), [8] -> (1)>", (4, 8), False))
    sg.append(((8, 8), (4, 4), "#tsl.tsl<[4] -> (4), [4] -> (1)>", (2, 0), True))
    # with an initial value (smaller: the contents are a z3 array addressed by the symbolic index)
    for gshape, tile, lay in (((8, 8), (4, 4), "#tsl.tsl<[4] -> (4), [4] -> (1)>"), ((8, 8), (4, 4), "#tsl.tsl<[2, 2] -> (8, 2), [2, 2] -> (4, 1)>"),
                              ((8, 4), (4, 4), "#tsl.tsl<[4] -> (1), [4] -> (4)>"), ((4, 16), (4, 4), "#tsl.tsl<[4] -> (4), [2, 2] -> (2, 1)>"),
                              ((12, 8), (4, 4), "#tsl.tsl<[4] -> (4), [4] -> (1)>")):
        for offs in ((0, 0), (tile[0] if gshape[0] > tile[0] else 0, tile[1] if gshape[1] > tile[1] else 0)):
            sg.append((gshape, tile, lay, offs, True))
    if True:
        if True:
            if True:
                pass
    chk.add_results("subview_of_global_relayout", pmap(case_subview_global, sg, chunks=2))
    dshapes = [(6, None), (None, 3, None), (None, None), (None, 128), (2, None, None, 4), (None, 5), (3, 4, None)]
    chk.add_results("dynamic_stand_in_shape", pmap(case_dynamic_shape, [(sh, ("in",)) for sh in dshapes], chunks=2))
    tr = [(r, c) for r in range(1, 6) for c in range(1, 6)]
    chk.add_results("transpose_tuple", pmap(case_transpose, tr if not quick else tr[::2], chunks=2))
    chk.add_results("transpose_pattern", pmap(case_transpose_pattern, [(2, 3), (3, 2), (4, 4), (1, 5), (5, 1), (3, 5), (2, 3, "out"), (4, 4, "out")], chunks=2))
    chk.bounds = dict(programs=len(progs), buffers="4x4 i32: 2 arguments, 2 allocations, 1 constant global, 1 constant; <=3 row-tile views (2x4) at offsets {0,2,symbolic 0..2}",
                      nesting="<=2", unroll_K=2, relayout_cases=len(lays), relayout_shapes=shapes, transpose_shapes="1..5 x 1..5")
    chk.outside = ["dynamic shapes beyond the size operands of the stand-in allocation (contents are only compared for static shapes)", "uninitialised globals in the program section (the subview-of-global section has them)", "several get_global ops of one global",
                   "non-dense or dynamic target layouts (the pass declines them)", "accelerator operations that read their output operand"]
