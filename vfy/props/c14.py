"""C14 - dispatch runs each operation on exactly the cores it belongs to."""

from __future__ import annotations

import random

import z3

from .. import irsym, mc_common as mc, sym, xshim
from ..harness import replay_pinned, run_case
from ..irsym import Opaque
from ..runner import pmap
from ..sym import eng

LEVEL = "translation_validation"


class Gen:
    def __init__(self, rnd, depth, two_blocks):
        self.rnd = rnd
        self.tag = 0
        self.depth = depth
        self.two_blocks = two_blocks

    def newtag(self):
        self.tag += 1
        return self.tag

    def stmt(self, depth):
        r = self.rnd.random()
        b = lambda: f"%b{self.rnd.randrange(4)}"
        if depth > 0 and r < 0.05:
            # a loop already split into pipeline stages (blocks without terminator): the last op of a stage has no
            # successor in its block
            return ("pipe", [self.block(0, self.rnd.randint(1, 2)) for _ in range(self.rnd.randint(2, 3))])
        if depth > 0 and r < 0.18:
            return ("for", self.block(depth - 1, self.rnd.randint(1, 3)))
        if depth > 0 and r < 0.34:
            return ("if", self.rnd.randrange(2), self.block(depth - 1, self.rnd.randint(1, 2)),
                    self.block(depth - 1, self.rnd.randint(1, 2)) if self.rnd.random() < 0.4 else None)
        if r < 0.55:
            return ("copy", b(), b(), self.newtag())
        if r < 0.72:
            return ("gen", b(), b(), b(), self.newtag())
        if r < 0.80:
            return ("region", "snax_gemmx", b(), b(), b(), self.newtag())
        if r < 0.85:
            return ("region", "snax_xdma", b(), b(), b(), self.newtag())
        if r < 0.87:
            # fused regions (two generics): the first kernel decides, whatever follows
            k1, k2 = self.rnd.choice([("add", "mul"), ("mul", "add"), ("add", "add"), ("add", "mul")])
            return ("fregion", self.rnd.choice(["snax_xdma", "snax_xdma", "snax_gemmx"]), b(), b(), b(), k1, k2, self.newtag())
        if r < 0.91:
            # one-input xDMA regions: rescale down / up are extension kernels (data mover); i32->i32 and i8->i8 are not
            ti, to = self.rnd.choice([("i32", "i8"), ("i8", "i32"), ("i32", "i8"), ("i32", "i32"), ("i8", "i8"), ("si32", "si8"), ("si8", "si32")])
            return ("xregion", self.rnd.choice(["snax_xdma", "snax_xdma", "snax_xdma", "snax_gemmx"]), ti, to, self.rnd.randrange(2), self.rnd.randrange(2), self.newtag())
        return ("test", self.newtag())

    def block(self, depth, n):
        return [self.stmt(depth) for _ in range(n)]


def render(prog, second=None):
    L = []
    n = [0]

    def emit(stmts, ind):
        P = "  " * ind
        for s in stmts:
            if s[0] == "copy":
                L.append(P + f'"memref.copy"({s[1]}, {s[2]}) {{tag = {s[3]} : i32}} : ({mc.BUF_T}, {mc.BUF_T}) -> ()')
            elif s[0] == "gen":
                L.append(P + mc.GENERIC.format(i0=s[1], i1=s[2], o=s[3], t=s[4], ty=mc.BUF_T, ind=P))
            elif s[0] == "region":
                L.append(P + mc.GEMMX_REGION.format(acc=s[1], i0=s[2], i1=s[3], o=s[4], t=s[5], ty=mc.BUF_T, ind=P))
            elif s[0] == "fregion":
                L.append(P + mc.FUSED_REGION.format(acc=s[1], i0=s[2], i1=s[3], o=s[4], k1=s[5], k2=s[6], t=s[7], ty=mc.BUF_T, ind=P))
            elif s[0] == "xregion":
                _, acc, ti, to, a, b_, t = s
                nm = lambda ty, k: "%" + {"i32": "b", "i8": "d", "si32": "e", "si8": "f"}[ty] + str(k)
                mt = lambda ty: mc.BUF_T if ty == "i32" else f"memref<8x{ty}>"
                L.append(P + mc.XDMA_REGION1.format(acc=acc, i0=nm(ti, a), o=nm(to, b_ + 2 if ti == to else b_), t=t, ti=ti, to=to, tyi=mt(ti), tyo=mt(to), ind=P))
            elif s[0] == "test":
                L.append(P + f'"test.op"() {{tag = {s[1]} : i32}} : () -> ()')
            elif s[0] == "for":
                n[0] += 1
                L.append(P + f"scf.for %i{n[0]} = %lb to %ub step %st {{")
                emit(s[1], ind + 1)
                L.append(P + "}")
            elif s[0] == "pipe":
                n[0] += 1
                L.append(P + f"scf.for %i{n[0]} = %lb to %ub step %st {{")
                L.append(P + "  pipeline.pipeline {")
                for k, st in enumerate(s[1]):
                    L.append(P + f"    pipeline.stage {k} {{")
                    emit(st, ind + 3)
                    L.append(P + "    }")
                L.append(P + "  }")
                L.append(P + "}")
            elif s[0] == "if":
                L.append(P + f"scf.if %c{s[1]} {{")
                emit(s[2], ind + 1)
                if s[3] is not None:
                    L.append(P + "} else {")
                    emit(s[3], ind + 1)
                L.append(P + "}")

    args = ", ".join(f"%b{i} : {mc.BUF_T}" for i in range(4)) + ", %c0 : i1, %c1 : i1, %lb : index, %ub : index, %st : index, " + \
        ", ".join(f"%d{i} : memref<8xi8>" for i in range(4)) + ", " + ", ".join(f"%e{i} : memref<8xsi32>" for i in range(2)) + ", " + \
        ", ".join(f"%f{i} : memref<8xsi8>" for i in range(2))
    emit(prog, 2)
    if second is None:
        body = "\n".join(L) + "\n    func.return"
    else:
        first = "\n".join(L)
        L.clear()
        emit(second, 2)
        body = first + "\n    cf.br ^next\n  ^next:\n" + "\n".join(L) + "\n    func.return"
    return f"""
builtin.module {{
  func.func public @f({args}) {{
{body}
  }}
}}
"""


def run_prog(m, args, core, K):
    I = irsym.Interp(K=K, W=32)
    ev = []

    def rec(I, op, cls):
        ev.append((mc.op_tag(op), cls))

    I.handlers.update(mc.effect_handlers(rec))

    funcs = {g.sym_name.data: g for g in irsym.module_funcs(m)}

    def h_call(I, op):
        nm = op.callee.root_reference.data
        if nm == "snax_cluster_core_idx":
            I.set(op.results[0], core)
        elif nm in funcs and funcs[nm].body.blocks:
            # a function specialised by function-constant-pinning: execute it in place
            callee = funcs[nm]
            saved = dict(I.env)
            r = I.run_func(callee, [I.get(o) for o in op.operands])
            I.env.update(saved)
            for res, v in zip(op.results, r or []):
                I.set(res, v)
        else:
            ev.append((nm, "all"))

    I.handlers["func.call"] = h_call
    I.handlers["pipeline.pipeline"] = lambda I, op: I.run_block(op.body.block) and None
    I.handlers["pipeline.stage"] = lambda I, op: I.run_block(op.body.block) and None
    f = [g for g in irsym.module_funcs(m) if g.sym_name.data == "f"][0]
    I.run_func(f, args)
    return ev


def case_prog(case, K=2):
    from xdsl.parser import Parser

    from snaxc.transforms.dispatch_regions import DispatchRegions

    prog, second, N = case
    src = render(prog, second)

    def fn():
        E = eng()
        main = xshim.make_main()
        try:
            from snaxc.accelerators.snax_xdma import SNAXXDMAAccelerator

            main.ctx.register_accelerator("snax_xdma", SNAXXDMAAccelerator)  # only registered through config files otherwise
        except ValueError:
            pass
        m1 = Parser(main.ctx, src).parse_module()
        m2 = m1.clone()
        DispatchRegions(nb_cores=N).apply(main.ctx, m2)
        core = z3.BitVec("core", 32)
        E.assume(z3.And(z3.ULT(core, N)))
        is_dm = E.branch(core == N - 1)
        is_cp = E.branch(core == 0)
        bufs = [Opaque("buffer", name=f"b{i}") for i in range(4)]
        lb, ub, st = z3.BitVec("lb", 32), z3.BitVec("ub", 32), z3.BitVec("st", 32)
        E.assume(z3.And(st > 0, st < 64, lb >= 0, lb < 64, ub >= 0, ub < 64))
        args = bufs + [z3.BitVec("c0", 1), z3.BitVec("c1", 1), lb, ub, st] + [Opaque("buffer", name=f"d{i}") for i in range(4)] + [Opaque("buffer", name=f"e{i}") for i in range(2)] + [Opaque("buffer", name=f"f{i}") for i in range(2)]
        t1 = run_prog(m1, args, None, K)
        t2 = run_prog(m2, args, core, K)
        want = [(t, c) for (t, c) in t1 if c == "all" or (c == "dm" and is_dm) or (c == "compute" and is_cp)]
        E.oblige("dispatch:trace_equals_filtered_original", z3.BoolVal([t for t, _ in want] == [t for t, _ in t2]),
                 dict(core=("dm" if is_dm else "compute" if is_cp else "other"), expected=[t for t, _ in want][:30], got=[t for t, _ in t2][:30], nb_cores=N))
        try:
            m2.verify()
        except Exception as e:
            E.oblige("dispatch:verifies", False, dict(error=str(e)[:200]))
        # pinning the core id to constants (upstream xdsl pass driven by the pin_to_constants annotation the dispatcher
        # emits) must specialise the function without changing what a core executes
        if second is None:
            m3 = m2.clone()
            try:
                xshim.apply_passes(m3, "function-constant-pinning", main)
            except Exception as e:
                E.oblige("pinning:applies", False, dict(error=str(e)[:200]))
                return
            t3 = run_prog(m3, args, core, K)
            E.oblige("pinning:trace_equals_filtered_original", z3.BoolVal([t for t, _ in want] == [t for t, _ in t3]),
                     dict(core=("dm" if is_dm else "compute" if is_cp else "other"), expected=[t for t, _ in want][:30], got=[t for t, _ in t3][:30], nb_cores=N,
                          specialised=sum(1 for g in irsym.module_funcs(m3)) - 1))

    def replay(f):
        ok, d = replay_pinned(fn, f)
        d["program"] = src
        return ok, d

    def sig(f, v):
        tags = []
        if second is not None:
            tags.append("multi_block_function")
        if "snax_xdma" in str(prog) + str(second):
            tags.append("xdma_region")
        if "'fregion'" in str(prog) + str(second):
            tags.append("fused_region")
        if "'pipe'" in str(prog) + str(second):
            tags.append("pipeline_stages")
        if any(x in str(prog) + str(second) for x in ("'snax_xdma', 'i32', 'i32'", "'snax_xdma', 'i8', 'i8'", "'snax_xdma', 'si")):
            tags.append("xdma_region_with_a_kernel_no_extension_implements")
        return f["name"] + ("|" + "+".join(tags) if tags else "")

    return run_case(fn, replay, signature=sig, sample=dict(program=str(prog)[:300], nb_cores=N, two_blocks=second is not None), key=str(case), max_paths=300)


def case_config(case):
    """The accelerator context built from a system description (the real snaxc.tools.config_parser.parse_config on a
    contract stub of the absent `dacite` package): every registered name resolves to an accelerator of its own kind -
    the dispatch rules look the accelerator of a region up by name."""
    import os
    import sys

    order = case

    def fn():
        stub = os.path.join(os.path.dirname(os.path.dirname(os.path.abspath(__file__))), "stubs")
        if stub not in sys.path:
            sys.path.insert(0, stub)
        from snaxc.tools.config_parser import parse_config

        gemmx = {"gemmx": {"m": 8, "n": 8, "k": 8, "streamers": [{"temporal_dims": 6, "spatial_dims": [8, 8]}, {"temporal_dims": 3, "spatial_dims": [8, 8]},
                                                               {"temporal_dims": 3, "spatial_dims": [8, 8]}, {"temporal_dims": 3, "spatial_dims": [8, 8]},
                                                               {"temporal_dims": 3, "spatial_dims": [8, 8]}]}}
        accs = {"gemmx": gemmx, "alu": {"snax_alu": None}, "xdma": {"snax_xdma": None}, "dm": {"data_mover": None}}
        cfg = {"memory": {"name": "L3", "start": 0x80000000, "size": 1 << 30},
               "clusters": [{"memory": {"name": "L1", "start": 0x10000000, "size": 1 << 17},
                             "cores": [{"accelerators": [accs[a] for a in core]} for core in order]}]}
        ctx = parse_config(cfg)
        want = {"gemmx": ("snax_gemmx", "SNAXGEMMXAccelerator"), "alu": ("snax_alu", "SNAXAluAccelerator"), "xdma": ("snax_xdma", "SNAXXDMAAccelerator")}
        for core in order:
            for a in core:
                if a in want:
                    nm, cls = want[a]
                    got = type(ctx.get_acc(nm)).__name__
                    eng().oblige("config:registered_name_resolves_to_its_own_accelerator", got == cls, dict(name=nm, resolves_to=got, cores=str(order)))
        eng().oblige("explored", True)

    return run_case(fn, lambda f: replay_pinned(fn, f), signature=lambda f, v: f["name"], sample=dict(cores=str(order)), key=str(case))


def run(chk):
    quick = chk.tier == "quick"
    rnd = random.Random(chk.seed)
    chk.functions = ["snaxc.tools.config_parser.parse_config (on a contract stub of dacite)", "snaxc.transforms.dispatch_regions.DispatchRegionsRewriter/dispatcher/InsertFunctionDeclaration", "snaxc.util.dispatching_rules.dispatch_to_dm/dispatch_to_compute"]
    chk.explanation = (
        "Translation validation of dispatch-regions{nb_cores=N}: generated functions (nested scf.for/scf.if, memref.copy, linalg.generic, "
        "dart streaming regions on snax_gemmx and snax_xdma, other ops, adjacent and separated, optionally two blocks) are run before and "
        "after the pass by the IR interpreter; the core id returned by snax_cluster_core_idx is a symbolic i32 with 0 <= id < N, loop "
        "bounds and branch conditions are symbolic. On every path the trace of tagged effectful ops of the dispatched function must equal "
        "the original trace filtered by an independent rule (data movement iff id == N-1, compute iff id == 0, everything else always), "
        "order preserved. The solver's work is small (three classes of core id, control-flow paths); the value is in executing the real "
        "pass output on all paths.")
    chk.assumptions = ["classification oracle: memref.copy and regions on snax_xdma whose kernel a streamer extension implements (add i32, rescale i32->i8, i8->i32; table written down in the harness) are data movement; linalg.generic and all other regions are compute",
                       "loops unrolled to K=2; function-constant-pinning (upstream xDSL, driven by the pin_to_constants annotation of the dispatcher) is applied to single-block programs and checked with the same oracle"]
    cases = []
    n = 220 if quick else 2500
    for k in range(n):
        g = Gen(rnd, 2, False)
        prog = g.block(2, rnd.randint(2, 5))
        second = g.block(1, rnd.randint(1, 3)) if rnd.random() < 0.15 else None
        cases.append((prog, second, rnd.choice((2, 2, 3, 4, 8))))
    chk.add_results("dispatch_vs_filtered_original", pmap(case_prog, cases, chunks=4))
    chk.add_results("accelerator_context_from_system_description", pmap(case_config, [(("gemmx",), ("xdma",)), (("xdma",), ("gemmx",)), (("alu",), ("dm",)), (("gemmx", "alu"), ("xdma",)),
                                                                                      (("alu",), ("gemmx",), ("xdma",))]))
    chk.bounds = dict(programs=len(cases), nb_cores=[2, 3, 4, 8], nesting="<=2", unroll_K=2)
    chk.outside = ["function-constant-pinning on multi-block functions", "ops other than the listed kinds"]
