"""C15 - pipelined double-buffered loops equal the sequential loop.

before : the barrier-separated sequential loop
after  : pipeline-canonicalize-for, construct-pipeline, pipeline-duplicate-buffers, unroll-pipeline
Both run on a two-core buffer machine (z3 arrays for contents, symbolic tile offsets); see run() for the obligations.
"""

from __future__ import annotations

import itertools
import random

import z3

from .. import irsym, sym, xshim
from ..harness import replay_pinned, run_case
from ..runner import pmap
from ..sym import eng

LEVEL = "translation_validation"

NT = 8  # tile elements
NBIG = 64
BIG = f"memref<{NBIG}xi32>"
TILE = f"memref<{NT}xi32>"
SUB = f"memref<{NT}xi32, strided<[1], offset: ?>>"

GEN1 = """"linalg.generic"({i0}, {i1}, {o}) <{{indexing_maps = [affine_map<(d0) -> (d0)>, affine_map<(d0) -> (d0)>, affine_map<(d0) -> (d0)>], iterator_types = [#linalg.iterator_type<parallel>], operandSegmentSizes = array<i32: 2, 1>}}> ({{
{ind}^bb1(%x{t} : i32, %y{t} : i32, %z{t} : i32):
{ind}  %m{t} = "arith.muli"(%x{t}, %y{t}) : (i32, i32) -> i32
{ind}  "linalg.yield"(%m{t}) : (i32) -> ()
{ind}}}) {{tag = {t} : i32}} : ({t0}, {t1}, {t2}) -> ()"""


GEN1S = """"linalg.generic"({ops}) <{{indexing_maps = [{maps}], iterator_types = [#linalg.iterator_type<parallel>], operandSegmentSizes = array<i32: 2, 1>}}> ({{
{ind}^bb1(%x{t} : {e0}, %y{t} : {e1}, %z{t} : i32):
{ind}  %xc{t} = "{k0}"(%x{t}) : ({e0}) -> {c0}
{ind}  %yc{t} = "{k1}"(%y{t}) : ({e1}) -> {c1}
{ind}  %m{t} = "arith.muli"(%xc{t}, %yc{t}) : (i64, i64) -> i64
{ind}  %r{t} = "arith.trunci"(%m{t}) : (i64) -> i32
{ind}  "linalg.yield"(%r{t}) : (i32) -> ()
{ind}}}) {{tag = {t} : i32}} : ({tys}) -> ()"""


# the same kernel with its scalar captured by the body instead of passed as an operand
GEN1C = """"linalg.generic"({buf}, {out}) <{{indexing_maps = [affine_map<(d0) -> (d0)>, affine_map<(d0) -> (d0)>], iterator_types = [#linalg.iterator_type<parallel>], operandSegmentSizes = array<i32: 1, 1>}}> ({{
{ind}^bb1(%x{t} : i32, %z{t} : i32):
{ind}  %xc{t} = "arith.extsi"(%x{t}) : (i32) -> i64
{ind}  %yc{t} = "{k}"({sc}) : ({e}) -> i64
{ind}  %m{t} = "arith.muli"(%xc{t}, %yc{t}) : (i64, i64) -> i64
{ind}  %r{t} = "arith.trunci"(%m{t}) : (i64) -> i32
{ind}  "linalg.yield"(%r{t}) : (i32) -> ()
{ind}}}) {{tag = {t} : i32}} : ({tys}) -> ()"""


class Declined(Exception):
    pass


class View:
    def __init__(self, root, off, n, what):
        self.root, self.off, self.n, self.what = root, off, n, what


class Machine:
    def __init__(self, name):
        self.name = name
        self.mem = {}
        self.ev = []  # ("op", tag, core, reads[(root, lo, n)], writes[...]) | ("barrier",)
        self.n = 0

    def new_root(self, key, init=None):
        self.n += 1
        nm = key if key not in self.mem else f"{key}#{self.n}"
        self.mem[nm] = init if init is not None else z3.Array(f"{self.name}:{nm}", z3.IntSort(), z3.IntSort())
        return nm


def handlers(M: Machine):
    from xdsl.dialects import builtin

    def h_alloc(I, op):
        t = op.results[0].type
        n = 1
        for d in t.get_shape():
            n *= d
        hint = op.results[0].name_hint or "tmp"
        # contents of a fresh buffer are arbitrary; the same arbitrary contents in both runs and for a duplicate of
        # the buffer (reading a tile before anything wrote it is outside the property)
        I.set(op.results[0], View(M.new_root(f"alloc:{hint}", z3.Array(f"uninit:{hint}", z3.IntSort(), z3.IntSort())), 0, n, hint))

    def h_get_global(I, op):
        # every reference to one global is the same buffer
        nm = op.name_.string_value()
        t = op.results[0].type
        n = 1
        for d in t.get_shape():
            n *= d
        g = M.__dict__.setdefault("globals_", {})
        if nm not in g:
            g[nm] = M.new_root(f"global:{nm}", z3.Array(f"uninit:{nm}", z3.IntSort(), z3.IntSort()))
        I.set(op.results[0], View(g[nm], 0, n, nm))

    def h_subview(I, op):
        src = I.get(op.source)
        dyn = iter(I.get(o) for o in op.offsets)
        offs = [next(dyn) if o == builtin.DYNAMIC_INDEX else o for o in op.static_offsets.get_values()]
        sizes = list(op.static_sizes.get_values())
        strides = list(op.static_strides.get_values())
        if len(offs) != 1 or strides != [1] or sizes[0] == builtin.DYNAMIC_INDEX:
            raise irsym.InterpError("subview shape outside the harness")
        I.set(op.result, View(src.root, src.off + offs[0], sizes[0], f"view of {src.what}"))

    def tag(op):
        t = op.attributes.get("tag")
        return t.value.data if t is not None else None

    def load(v, k):
        return z3.Select(M.mem[v.root], v.off + k)

    def h_copy(I, op):
        s, d = I.get(op.operands[0]), I.get(op.operands[1])
        vals = [load(s, k) for k in range(s.n)]
        for k, x in enumerate(vals):
            M.mem[d.root] = z3.Store(M.mem[d.root], d.off + k, x)
        M.ev.append(("op", tag(op), "dm", [(s.root, s.off, s.n)], [(d.root, d.off, d.n)], [vals]))

    def h_gen(I, op):
        ins = [I.get(o) for o in op.inputs]
        # values that the body takes from its surroundings are inputs of the kernel as well
        inside = {r for o in op.body.walk() for r in o.results} | {a for b in op.body.blocks for a in b.args}
        ins += [I.get(v) for v in dict.fromkeys(v for o in op.body.walk() for v in o.operands if v not in inside)]
        out = I.get(op.outputs[0])
        t = tag(op)
        f = z3.Function(f"f{t}", *([z3.IntSort()] * (len(ins) + 1)))
        invals = [[load(v, k) if isinstance(v, View) else v for k in range(out.n)] for v in ins]
        res = [f(*[iv[k] for iv in invals]) for k in range(out.n)]
        for k, x in enumerate(res):
            M.mem[out.root] = z3.Store(M.mem[out.root], out.off + k, x)
        M.ev.append(("op", t, "compute", [(v.root, v.off, v.n) for v in ins if isinstance(v, View)], [(out.root, out.off, out.n)], invals))

    def h_sync(I, op):
        M.ev.append(("barrier",))

    def h_select(I, op):
        c, a, b = I.vals(op)
        if isinstance(a, View) or isinstance(b, View):
            I.set(op.result, a if eng().branch(c != 0) else b)
        else:
            I.set(op.result, z3.If(c != 0, a, b))

    return {"memref.alloc": h_alloc, "memref.get_global": h_get_global, "memref.subview": h_subview, "memref.copy": h_copy, "linalg.generic": h_gen,
            "snax.cluster_sync_op": h_sync, "arith.select": h_select, "memref.dealloc": lambda I, op: None}


# ------------------------------------------------------------------ generator


def gen_case(rnd):
    S = rnd.choice([2, 3, 3, 3, 4])
    tiles = [f"%t{k}" for k in range(rnd.randint(S - 1, S))]
    shape = rnd.random()
    tag = [0]

    def nt():
        tag[0] += 1
        return tag[0]

    stages = []
    if shape < 0.6:
        # load / compute ... / store chain through consecutive tile buffers
        prev = "%sa"
        for s in range(S):
            last = s == S - 1
            out = "%sb" if last else tiles[s % len(tiles)]
            if s == 0 or (last and rnd.random() < 0.7):
                stages.append([("copy", prev, out, nt())])
            else:
                stages.append([("gen", prev, rnd.choice(["%sc", "%sa", "%sc"]), out, nt())])
            prev = out
    elif shape < 0.68:
        # feedback chain: every tile is read one stage BEFORE the stage that writes it (the value is consumed by the
        # next iteration); the compiler may decline, but must not double-buffer reader and writer alike
        tiles = [f"%t{k}" for k in range(S - 1)]
        for s in range(S):
            if s == 0:
                stages.append([("copy", tiles[0], "%sb", nt())])
            elif s == S - 1:
                stages.append([("gen", "%sa", "%sc", tiles[s - 1], nt())])
            else:
                stages.append([("gen", tiles[s], rnd.choice(["%sc", "%sa"]), tiles[s - 1], nt())])
    else:
        # free assignment of buffers to stages (the compiler may decline)
        written = []
        feedback = rnd.random() < 0.3  # also read tiles that only a later stage writes
        for s in range(S):
            ops = []
            for _ in range(rnd.choice([1, 1, 2])):
                srcs = ["%sa", "%sc"] + written[-2:] + (list(tiles) if feedback else [])
                out = rnd.choice(tiles + ["%sb"]) if s < S - 1 else rnd.choice(["%sb", "%sb"] + tiles)
                if rnd.random() < 0.5:
                    ops.append(("copy", rnd.choice(srcs), out, nt()))
                else:
                    ops.append(("gen", rnd.choice(srcs), rnd.choice(srcs), out, nt()))
                if out.startswith("%t"):
                    written.append(out)
            # the source has to be race free itself: two operations of one stage on different cores share no buffer
            # that one of them writes
            if len(ops) == 2 and ops[0][0] != ops[1][0]:
                r0, w0 = set(x for x in ops[0][1:-2] if str(x).startswith("%")), {ops[0][-2]}
                r1, w1 = set(x for x in ops[1][1:-2] if str(x).startswith("%")), {ops[1][-2]}
                if (w0 & (r1 | w1)) or (w1 & (r0 | w0)):
                    ops = ops[:1]
            stages.append(ops)
    r = rnd.random()
    if r < 0.30:
        loop = ("const", 0, rnd.randint(0, 6), 1)
    elif r < 0.60:
        loop = ("sym_ub",)
    elif r < 0.75:
        loop = ("const", 0, rnd.randint(0, 9), rnd.choice([2, 3]))
    elif r < 0.85:
        loop = ("const", rnd.randint(1, 2), rnd.randint(0, 6), 1)
    elif r < 0.93:
        loop = ("sym_lb",)
    else:
        loop = ("sym_step",)
    mul = rnd.choice([NT, NT, NT // 2 * 2, 2 * NT])
    # some compute operations take a scalar next to their buffer (zero point of a quantised kernel), first or last
    stages = [[(("gens", o[1], rnd.choice(["first", "last", "first_i", "last_i"]), o[3], o[4]) if o[0] == "gen" and rnd.random() < 0.25 else o) for o in ops] for ops in stages]
    # tile buffers are allocations, or views into one scratchpad allocated in front of the loop
    tile_kind = "view" if rnd.random() < 0.2 else "alloc"
    if tile_kind == "alloc" and len(tiles) and sum(map(ord, "".join(tiles))) % 9 == 0 and S % 2:
        tile_kind = "global"
    return (S, tuple(tiles), tuple(tuple(s) for s in stages), loop, mul, tile_kind)


def render(case):
    S, tiles, stages, loop, mul = case[:5]
    tile_kind = case[5] if len(case) > 5 else "alloc"
    L = []
    P = "      "
    ty = lambda v: (TILE if tile_kind in ("alloc", "global", "loopalloc") else SUB) if v.startswith("%t") else SUB
    for ops in stages:
        for o in ops:
            if o[0] == "idxop":
                # index arithmetic between two stages (not at the head of the loop body)
                L.append(P + f"%sm = memref.subview %C[%off] [{NT}] [1] : {BIG} to {SUB}")
            elif o[0] == "copy":
                L.append(P + f'"memref.copy"({o[1]}, {o[2]}) {{tag = {o[3]} : i32}} : ({ty(o[1])}, {ty(o[2])}) -> ()')
            elif o[0] == "gens":
                _, buf, pos, out, t = o
                # the scalar is a function argument, or (pos ..._i) computed from the loop counter like the tile offsets
                # (pos ..._d: the loop counter itself, without an index computation in between)
                sc = ("%i", "index") if pos.endswith("_d") else ("%zi", "i32") if pos.endswith("_i") else ("%zp", "i32")
                if pos.startswith("cap"):
                    L.append(P + GEN1C.format(buf=buf, out=out, t=t, ind=P, sc=sc[0], e=sc[1], k="arith.extsi" if sc[1] == "i32" else "arith.index_cast",
                                              tys=ty(buf) + ", " + ty(out)))
                    continue
                ins = [(sc[0], sc[1], "affine_map<(d0) -> ()>", sc[1]), (buf, ty(buf), "affine_map<(d0) -> (d0)>", "i32")]
                if pos.startswith("last"):
                    ins.reverse()
                L.append(P + GEN1S.format(ops=", ".join(x[0] for x in ins) + ", " + out, maps=", ".join(x[2] for x in ins) + ", affine_map<(d0) -> (d0)>",
                                          tys=", ".join(x[1] for x in ins) + ", " + ty(out), t=t, ind=P, e0=ins[0][3], e1=ins[1][3],
                                          c0="i64", c1="i64", k0="arith.extsi" if ins[0][3] == "i32" else "arith.index_cast",
                                          k1="arith.extsi" if ins[1][3] == "i32" else "arith.index_cast"))
            else:
                L.append(P + GEN1.format(i0=o[1], i1=o[2], o=o[3], t=o[4], t0=ty(o[1]), t1=ty(o[2]), t2=ty(o[3]), ind=P))
        L.append(P + '"snax.cluster_sync_op"() : () -> ()')
    if loop[0] == "const":
        bounds = f"    %l = arith.constant {loop[1]} : index\n    %u = arith.constant {loop[2]} : index\n    %s = arith.constant {loop[3]} : index"
    elif loop[0] == "sym_ub":
        bounds = "    %l = arith.constant 0 : index\n    %u = arith.addi %ub, %l : index\n    %s = arith.constant 1 : index"
    elif loop[0] == "sym_lb":
        bounds = "    %k0 = arith.constant 0 : index\n    %l = arith.addi %lb, %k0 : index\n    %u = arith.addi %ub, %k0 : index\n    %s = arith.constant 1 : index"
    else:
        bounds = "    %l = arith.constant 0 : index\n    %u = arith.addi %ub, %l : index\n    %s = arith.addi %st, %l : index"
    globals_ = ""
    if tile_kind == "alloc":
        allocs = "\n".join(f"    {t} = memref.alloc() : {TILE}" for t in tiles)
    elif tile_kind == "global":
        # tile buffers that are (uninitialised) globals: a second reference is the same buffer, not a second one
        allocs = "\n".join(f"    {t} = memref.get_global @g{t[1:]} : {TILE}" for t in tiles)
        globals_ = "\n".join(f'  "memref.global"() <{{alignment = 64 : i64, initial_value, sym_name = "g{t[1:]}", sym_visibility = "private", type = {TILE}}}> : () -> ()' for t in tiles) + "\n"
    else:
        allocs = f"    %scratch = memref.alloc() : memref<{NT * len(tiles)}xi32>\n" + "\n".join(
            f"    {t} = memref.subview %scratch[{NT * k}] [{NT}] [1] : memref<{NT * len(tiles)}xi32> to {SUB}" for k, t in enumerate(tiles))
    loop_allocs = ""
    if tile_kind == "loopalloc":
        # temporaries allocated anew in every iteration, next to the index computations
        loop_allocs = "\n".join(f"      {t} = memref.alloc() : {TILE}" for t in tiles) + "\n"
        allocs = ""
    if tile_kind == "loopview":
        # the tiles are views into one scratchpad, taken inside the loop at positions that do not depend on the counter
        allocs = f"    %scratch = memref.alloc() : memref<{NT * len(tiles)}xi32>"
        loop_allocs = "\n".join(f"      {t} = memref.subview %scratch[{NT * k}] [{NT}] [1] : memref<{NT * len(tiles)}xi32> to {SUB}" for k, t in enumerate(tiles)) + "\n"
    extra = case[6] if len(case) > 6 else None
    # a second, barrier-free loop in the same function that shares the bound constants with the pipelined one
    other = f"""    scf.for %j = %l to %u step %s {{
      %offj = arith.muli %j, %c : index
      %ja = memref.subview %A[%offj] [{NT}] [1] : {BIG} to {SUB}
      %jc = memref.subview %C[%offj] [{NT}] [1] : {BIG} to {SUB}
      "memref.copy"(%ja, %jc) {{tag = 801 : i32}} : ({SUB}, {SUB}) -> ()
    }}
"""
    # (separated from the pipelined loop by a barrier, so that the source itself is race free)
    sync = '    "snax.cluster_sync_op"() : () -> ()\n'
    pre_loop, post_loop = (other + sync if extra == "before" else ""), (sync + other if extra == "after" else "")
    return f"""
builtin.module {{
{globals_}  func.func public @f(%A : {BIG}, %B : {BIG}, %C : {BIG}, %lb : index, %ub : index, %st : index, %zp : i32) {{
    %c = arith.constant {mul} : index
{bounds}
{allocs}
{pre_loop}    scf.for %i = %l to %u step %s {{
      %off = arith.muli %i, %c : index
      %zi = arith.index_cast %off : index to i32
      %sa = memref.subview %A[%off] [{NT}] [1] : {BIG} to {SUB}
      %sb = memref.subview %B[%off] [{NT}] [1] : {BIG} to {SUB}
      %sc = memref.subview %C[%off] [{NT}] [1] : {BIG} to {SUB}
{loop_allocs}{chr(10).join(L)}
    }}
{post_loop}    func.return
  }}
}}
"""


def run_machine(m, name, K, lb, ub, st, inits):
    M = Machine(name)
    I = irsym.Interp(K=K, intmode=True, name=name)
    I.handlers.update(handlers(M))
    f = [g for g in irsym.module_funcs(m) if g.sym_name.data == "f"][0]
    args = [View(M.new_root(f"arg{k}", inits[k]), 0, NBIG, f"arg{k}") for k in range(3)]
    I.run_func(f, args + [lb, ub, st, z3.Int("zp")])
    return M


def case_pipe(case, K=6):
    from xdsl.parser import Parser

    S = case[0]
    src = render(case)

    def fn():
        E = eng()
        main = xshim.make_main()
        m1 = Parser(main.ctx, src).parse_module()
        m1.verify()
        m2 = m1.clone()
        xshim.apply_passes(m2, "pipeline-canonicalize-for,construct-pipeline", main)
        constructed = any(op.name == "pipeline.pipeline" for op in m2.walk())
        try:
            xshim.apply_passes(m2, "pipeline-duplicate-buffers,unroll-pipeline", main)
        except NotImplementedError as e:
            raise Declined(f"compiler declines: {str(e)[:70]}")
        except (AssertionError, RuntimeError) as e:
            raise Declined(f"compiler aborts: {type(e).__name__} {str(e)[:40]}")
        try:
            m2.verify()
        except Exception as e:
            E.oblige("result:verifies", False, dict(error=str(e)[:300]))
            return
        lb, ub, st = z3.Int("lb"), z3.Int("ub"), z3.Int("st")
        E.assume(z3.And(lb >= 0, lb <= 2, ub >= 0, ub <= 12, st >= 1, st <= 3))
        inits = [z3.Array(f"in{k}", z3.IntSort(), z3.IntSort()) for k in range(3)]
        M1 = run_machine(m1, "before", K, lb, ub, st, inits)
        try:
            M2 = run_machine(m2, "after", K + 4, lb, ub, st, inits)
        except irsym.Undefined as e:
            E.oblige("result:values_defined_before_use", False, dict(error=str(e)[:300]))
            return
        ops1 = [e for e in M1.ev if e[0] == "op"]
        ops2 = [e for e in M2.ev if e[0] == "op"]
        trips = len([e for e in ops1 if e[1] == ops1[0][1]]) if ops1 else 0
        sit = dict(stages=S, trip_count=trips, pipelined=constructed, loop=case[3][0])
        # (1) every stage of every iteration exactly once, with the same index-dependent operands
        tags = sorted({e[1] for e in ops1} | {e[1] for e in ops2})
        for t in tags:
            a = [e for e in ops1 if e[1] == t]
            b = [e for e in ops2 if e[1] == t]
            E.oblige("stages:each_stage_runs_once_per_iteration", len(a) == len(b), dict(tag=t, before=len(a), after=len(b), **sit))
            if len(a) != len(b):
                continue
            # multiset of the tile offsets it touches (index-dependent operands) is the same
            key = lambda e: [lo for (root, lo, n) in e[3] + e[4] if root.startswith("arg")]
            ka, kb = [key(e) for e in a], [key(e) for e in b]
            if ka and ka[0]:
                conj = []
                for x in ka:
                    cnt_b = z3.Sum([z3.If(z3.And(*[z(p) == z(q) for p, q in zip(x, y)]), 1, 0) for y in kb])
                    cnt_a = z3.Sum([z3.If(z3.And(*[z(p) == z(q) for p, q in zip(x, y)]), 1, 0) for y in ka])
                    conj.append(cnt_a == cnt_b)
                E.oblige("stages:same_index_dependent_operands", z3.And(*conj) if conj else True, dict(tag=t, **sit))
        # (2) no tile outside the original iteration range is touched
        touched1 = {}
        for e in ops1:
            for root, lo, n in e[3] + e[4]:
                if root.startswith("arg"):
                    touched1.setdefault(root, []).append(lo)
        for e in ops2:
            for root, lo, n in e[3] + e[4]:
                if root.startswith("arg"):
                    E.oblige("range:no_tile_outside_the_iteration_range_is_touched",
                             z3.Or(*[z(lo) == z(x) for x in touched1.get(root, [])]) if touched1.get(root) else False,
                             dict(tag=e[1], buffer=root, **sit))
        # (3) each stage reads the data its predecessor of the same iteration wrote: same input values per execution,
        #     matched by tag and order of the iteration (executions of one tag stay in iteration order)
        for t in tags:
            a = [e for e in ops1 if e[1] == t]
            b = [e for e in ops2 if e[1] == t]
            if len(a) != len(b):
                continue
            for k, (x, y) in enumerate(zip(a, b)):
                eqs = [p == q for u, v in zip(x[5], y[5]) for p, q in zip(u, v)]
                E.oblige("data:stage_reads_what_its_predecessor_wrote", z3.And(*eqs) if eqs else True, dict(tag=t, execution=k, **sit))
        # (4) final contents of the argument buffers
        for k in range(3):
            i = z3.Int("probe")
            E.oblige("data:final_contents_equal_sequential_loop",
                     z3.ForAll([i], z3.Implies(z3.And(i >= 0, i < NBIG), z3.Select(M1.mem[f"arg{k}"], i) == z3.Select(M2.mem[f"arg{k}"], i))) if False else
                     z3.And(*[z3.Select(M1.mem[f"arg{k}"], j) == z3.Select(M2.mem[f"arg{k}"], j) for j in range(NBIG)]), dict(buffer=f"arg{k}", **sit))
        # (5) every interleaving the barriers permit: accesses of the two cores inside one epoch never conflict
        epoch = []
        for e in M2.ev + [("barrier",)]:
            if e[0] == "barrier":
                for i_ in range(len(epoch)):
                    for j_ in range(i_):
                        x, y = epoch[i_], epoch[j_]
                        if x[2] == y[2]:
                            continue
                        for (acc_x, wx) in [(r, False) for r in x[3]] + [(w, True) for w in x[4]]:
                            for (acc_y, wy) in [(r, False) for r in y[3]] + [(w, True) for w in y[4]]:
                                if not (wx or wy) or acc_x[0] != acc_y[0]:
                                    continue
                                if wx and wy and acc_x[0].startswith("alloc"):
                                    continue  # two writers of a temporary: only matters through a reader, which is checked
                                overlap = z3.And(z(acc_x[1]) < z(acc_y[1]) + acc_y[2], z(acc_y[1]) < z(acc_x[1]) + acc_x[2])
                                E.oblige("race:cores_do_not_conflict_between_barriers", z3.Not(overlap),
                                         dict(first=(y[1], y[2]), second=(x[1], x[2]), buffer=acc_x[0].split("#")[0], **sit))
                epoch = []
            else:
                epoch.append(e)
        E.oblige("explored", True)

    def replay(f):
        ok, d = replay_pinned(fn, f)
        d["program"] = src
        d["case"] = repr(case)
        return ok, d

    def sig(f, v):
        info = f.get("info") or {}
        tags = []
        if info.get("pipelined") and info.get("loop") in ("sym_lb", "sym_step") or (info.get("pipelined") and info.get("loop") == "const" and (case[3][1] != 0)):
            tags.append("loop_not_normalised_to_lb0_step1")
        elif info.get("pipelined") and info.get("trip_count", 99) < info.get("stages", 0) - 1:
            tags.append("trip_count_below_stages_minus_1" + ("+dynamic_upper_bound" if info.get("loop") == "sym_ub" else ""))
        return f["name"] + ("|" + "+".join(tags) if tags else "")

    return run_case(fn, replay, signature=sig, sample=dict(case=str(case)[:300]), key=str(case), max_paths=60, reject=(Declined,))


def z(x):
    return x if z3.is_expr(x) else z3.IntVal(int(x))


def run(chk):
    quick = chk.tier == "quick"
    rnd = random.Random(chk.seed)
    chk.functions = ["snaxc.transforms.pipeline.construct_pipeline.ConstructPipeline", "snaxc.transforms.pipeline.pipeline_duplicate_buffers.PipelineDuplicateBuffers",
                     "snaxc.transforms.pipeline.unroll_pipeline.UnrollPipeline/DestructIndex/DestructStage", "snaxc.transforms.pipeline.pipeline_canonicalize_for (as first step)"]
    chk.explanation = (
        "Generated loops of the recognised shape (index computation and three index-dependent subviews, then 2..4 barrier-separated "
        "stages of memref.copy / linalg.generic on tile buffers and subviews; load-compute-store chains and free buffer assignments; "
        "constant and symbolic bounds, lower bounds and steps) are executed before and after pipeline-canonicalize-for, "
        "construct-pipeline, pipeline-duplicate-buffers, unroll-pipeline on a two-core buffer machine: contents are z3 arrays with "
        "symbolic initial values, tile offsets are terms in the loop bounds, trip counts 0..6 are covered by unrolling. z3 proves "
        "per path: every stage runs once per iteration with the same multiset of tile offsets; no tile outside the original "
        "iteration range is touched; every stage execution reads the same values as in the sequential loop; the argument buffers "
        "end up equal; and inside every barrier epoch of the pipelined program no access of the data mover overlaps a conflicting "
        "access of the compute core (so all interleavings the barriers permit give the same result).")
    chk.assumptions = ["memref.copy runs on the data-mover core, linalg.generic on the compute core (the dispatch rule of C14)",
                       "stage operations are elementwise (uninterpreted function per operation); tile size 8, buffers of 64 elements",
                       "assignments that pipeline-duplicate-buffers declines with NotImplementedError are counted as rejected inputs"]
    cases = [gen_case(rnd) for _ in range(160 if quick else 2000)]
    # fixed shapes, independent of the seed: a buffer that skips a stage (written in stage k, read in stage k+2), a
    # buffer read one stage before it is written (feedback), and the plain chain - each with constant trip counts
    # 0..5 and a run-time upper bound
    tag = itertools.count(1)
    fixed = {
        "skip3": (3, ("%t0", "%t1"), ((("copy", "%sa", "%t0", next(tag)),), (("copy", "%sc", "%t1", next(tag)),), (("gen", "%t0", "%t1", "%sb", next(tag)),))),
        "skip4": (4, ("%t0", "%t1", "%t2"), ((("copy", "%sa", "%t0", next(tag)), ("copy", "%sc", "%t1", next(tag))), (("gen", "%t0", "%t0", "%t2", next(tag)),),
                                             (("gen", "%t2", "%t1", "%t0", next(tag)),), (("copy", "%t0", "%sb", next(tag)),))),
        "skip3b": (3, ("%t0", "%t1"), ((("copy", "%sa", "%t0", next(tag)),), (("gen", "%sc", "%sc", "%t1", next(tag)),), (("gen", "%t1", "%t0", "%sb", next(tag)),))),
        "feedback2": (2, ("%t0",), ((("copy", "%t0", "%sb", next(tag)),), (("gen", "%sa", "%sc", "%t0", next(tag)),))),
        "feedback3": (3, ("%t0", "%t1"), ((("copy", "%t0", "%sb", next(tag)),), (("gen", "%t1", "%sc", "%t0", next(tag)),), (("gen", "%sa", "%sc", "%t1", next(tag)),))),
        "chain3_index_scalar": (3, ("%t0", "%t1"), ((("copy", "%sa", "%t0", next(tag)),), (("gens", "%t0", "first_i", "%t1", next(tag)),), (("gens", "%t1", "last_i", "%sb", next(tag)),))),
        "chain3_counter_scalar": (3, ("%t0", "%t1"), ((("copy", "%sa", "%t0", next(tag)),), (("gens", "%t0", "first_d", "%t1", next(tag)),), (("gens", "%t1", "last_d", "%sb", next(tag)),))),
        "chain3_captured_scalar": (3, ("%t0", "%t1"), ((("copy", "%sa", "%t0", next(tag)),), (("gens", "%t0", "cap_i", "%t1", next(tag)),), (("gens", "%t1", "cap_d", "%sb", next(tag)),))),
        "chain4_index_op_between_stages": (4, ("%t0", "%t1", "%t2"), ((("copy", "%sa", "%t0", next(tag)),), (("gen", "%t0", "%sc", "%t1", next(tag)),),
                                                                          (("idxop",), ("gen", "%t1", "%sm", "%t2", next(tag))), (("copy", "%t2", "%sb", next(tag)),))),
        "chain3_index_op_between_stages": (3, ("%t0", "%t1"), ((("copy", "%sa", "%t0", next(tag)),), (("idxop",), ("gen", "%t0", "%sm", "%t1", next(tag))), (("copy", "%t1", "%sb", next(tag)),))),
        # an in-place kernel: its output buffer is one of its inputs, and the next stage reads it
        "inplace3": (3, ("%t0", "%t1"), ((("copy", "%sa", "%t0", next(tag)),), (("gen", "%t0", "%t1", "%t1", next(tag)),), (("copy", "%t1", "%sb", next(tag)),))),
        "inplace3b": (3, ("%t0", "%t1"), ((("copy", "%sa", "%t0", next(tag)), ("copy", "%sc", "%t1", next(tag))), (("gen", "%t1", "%t0", "%t1", next(tag)),), (("copy", "%t1", "%sb", next(tag)),))),
        "chain3": (3, ("%t0", "%t1"), ((("copy", "%sa", "%t0", next(tag)),), (("gen", "%t0", "%sc", "%t1", next(tag)),), (("copy", "%t1", "%sb", next(tag)),))),
    }
    for nm, (S_, tiles_, stages_) in fixed.items():
        for loop in [("const", 0, n_, 1) for n_ in range(0, 6)] + [("sym_ub",)]:
            for tk in ("alloc", "view", "global") if nm in ("skip3", "feedback2", "chain3") else ("alloc",):
                cases.append((S_, tiles_, stages_, loop, NT, tk))
            if nm in ("chain3", "skip3") and loop[0] == "const" and loop[2] in (2, 4, 5):
                cases.append((S_, tiles_, stages_, loop, NT, "loopalloc"))
                cases.append((S_, tiles_, stages_, loop, NT, "loopview"))
            if nm == "chain3" and loop[0] == "const" and loop[2] in (0, 2, 4):
                for extra in ("after", "before"):
                    cases.append((S_, tiles_, stages_, loop, NT, "alloc", extra))
    # every fifth sampled program gets a second loop sharing its bound constants
    cases = [c + (("after" if k % 10 == 0 else "before"),) if k % 5 == 0 and k < (160 if quick else 2000) else c for k, c in enumerate(cases)]
    if True:
        if True:
            if True:
                pass
    chk.add_results("pipelines", pmap(case_pipe, cases, chunks=4))
    chk.bounds = dict(programs=len(cases), stages="2..4", ops_per_stage="1..2", trip_counts="0..6 (unrolling bound)", tile=NT, buffer=NBIG)
    chk.outside = ["streaming regions as stage operations", "trip counts above 6", "nested loops (the pass declines them)", "insert-sync-barrier / dispatch-regions after unrolling (C13, C14)"]
