"""C20 - a merged processing element, configured as decoded, computes each kernel."""

from __future__ import annotations

import itertools
import random

import z3

from .. import irsym, sym, xshim
from ..harness import mval, run_case
from ..runner import pmap
from ..sym import eng

LEVEL = "other"

# kernel = tuple of ops (opname, src1, src2); src: 'a' | 'b' | int (index of an earlier op)
INT_POOL = {
    "add": (("addi", "a", "b"),),
    "mul": (("muli", "a", "b"),),
    "sub": (("subi", "a", "b"),),
    "rsub": (("subi", "b", "a"),),
    "and": (("andi", "a", "b"),),
    "mul_sub": (("muli", "a", "b"), ("subi", 0, "a")),
    "add_mul": (("addi", "a", "b"), ("muli", 0, "b")),
    "mul_add_r": (("muli", "a", "b"), ("addi", "a", 0)),
    "sub_mul_b": (("subi", "a", "b"), ("muli", "b", 0)),
    "three": (("addi", "a", "b"), ("subi", "a", "b"), ("muli", 0, 1)),
    "three_chain": (("muli", "a", "b"), ("addi", 0, "b"), ("subi", 1, "a")),
    # the same three operations with the third one's first operand taken from each of the four places it can come from
    "three_a": (("addi", "a", "b"), ("subi", "a", "b"), ("muli", "a", 1)),
    "three_b": (("addi", "a", "b"), ("subi", "a", "b"), ("muli", "b", 1)),
    "three_1": (("addi", "a", "b"), ("subi", "a", "b"), ("muli", 1, 0)),
    # operations carrying flags (the merged element keeps one operation per kind, whatever its flags)
    # the same operations, another one of them returned
    "sub_mul_yield_first": (("subi", "a", "b"), ("muli", 0, "a"), ("yield", 0, None)),
    "sub_mul_yield_last": (("subi", "a", "b"), ("muli", 0, "a")),
    "mul_nsw": (("muli_nsw", "a", "b"),),
    "add_nuw_mul": (("addi_nuw", "a", "b"), ("muli", 0, "b")),
    "sub_mul_nsw": (("subi", "a", "b"), ("muli_nsw", 0, "a")),
    "xor_or": (("xori", "a", "b"), ("ori", 0, "b")),
    "sq_plus_b": (("muli", "a", "a"), ("addi", 0, "b")),
    "dbl_sub": (("addi", "a", "a"), ("subi", 0, "b")),
}
FLT_POOL = {
    "addf": (("addf", "a", "b"),),
    "mulf": (("mulf", "a", "b"),),
    "rsubf": (("subf", "b", "a"),),
    "mulf_subf": (("mulf", "a", "b"), ("subf", 0, "a")),
    "addf_mulf": (("addf", "a", "b"), ("mulf", "b", 0)),
    "threef": (("addf", "a", "b"), ("subf", "a", "b"), ("mulf", 0, 1)),
    "divf_r": (("divf", "b", "a"),),
    "mulf_fast": (("mulf_fast", "a", "b"),),
    "addf_fast_mulf": (("addf_fast", "a", "b"), ("mulf", 0, "a")),
}


def make_generic(kernel, is_float):
    from xdsl.dialects import arith, builtin, linalg, test
    from xdsl.dialects.builtin import Float32Type, MemRefType, i32
    from xdsl.ir import Block, Region
    from xdsl.ir.affine import AffineMap

    t = Float32Type() if is_float else i32
    b = Block(arg_types=[t, t, t])
    CL = {"addi": arith.AddiOp, "muli": arith.MuliOp, "subi": arith.SubiOp, "andi": arith.AndIOp, "ori": arith.OrIOp,
          "xori": arith.XOrIOp, "addf": arith.AddfOp, "mulf": arith.MulfOp, "subf": arith.SubfOp, "divf": arith.DivfOp}
    res = []

    def val(s):
        return b.args[0] if s == "a" else b.args[1] if s == "b" else res[s]

    yield_at = -1
    for (nm, s1, s2) in kernel:
        if nm == "yield":  # ("yield", k, None): the body returns the result of operation k, not of the last one
            yield_at = s1
            continue
        if nm.endswith(("_nsw", "_nuw")):
            fl = arith.IntegerOverflowFlag.NSW if nm.endswith("_nsw") else arith.IntegerOverflowFlag.NUW
            o = CL[nm[:-4]](val(s1), val(s2), overflow=arith.IntegerOverflowAttr([fl]))
        elif nm.endswith("_fast"):
            o = CL[nm[:-5]](val(s1), val(s2), flags=arith.FastMathFlagsAttr("fast"))
        else:
            o = CL[nm](val(s1), val(s2))
        b.add_op(o)
        res.append(o.results[0])
    b.add_op(linalg.YieldOp(res[yield_at]))
    mt = MemRefType(t, [16])
    srcs = [test.TestOp(result_types=[mt]) for _ in range(3)]
    m = builtin.AffineMapAttr(AffineMap.identity(1))
    g = linalg.GenericOp([srcs[0].res[0], srcs[1].res[0]], [srcs[2].res[0]], Region(b), [m] * 3, [linalg.IteratorTypeAttr.parallel()])
    builtin.ModuleOp([*srcs, g])
    return g


def encode(kernel, is_float, name="acc_phs"):
    from xdsl.pattern_rewriter import PatternRewriter

    from snaxc.phs.encode import convert_generic_body_to_phs

    g = make_generic(kernel, is_float)
    return g, convert_generic_body_to_phs(g, name, PatternRewriter(g))


# ------------------------------------------------------------------ PE evaluator (Layer I handlers)


def eval_pe(pe, data_vals, switch_vals):
    """PE(inputs, switches): ChooseOp = the alternative selected by its switch, MuxOp = rhs if switch==1 else lhs."""
    from snaxc.dialects import phs

    I = irsym.Interp(W=64)
    block = pe.body.block
    nsw = pe.switch_no.value.data
    args = list(block.args)
    dargs = args[: len(args) - nsw] if nsw else args
    sargs = args[len(args) - nsw:] if nsw else []
    assert len(dargs) == len(data_vals), (len(dargs), len(data_vals))
    for a, v in zip(dargs, data_vals):
        I.set(a, v)
    for a, v in zip(sargs, switch_vals):
        I.set(a, v)

    def h_choose(I, op):
        sw = I.get(op.switch)
        regs = list(op.regions)
        if not isinstance(sw, int) or sw < 0 or sw >= len(regs):
            raise irsym.InterpError(f"switch value {sw} selects no alternative of {op.name_prop.data} ({len(regs)} alternatives)")
        blk = regs[sw].blocks[0]
        for a, o in zip(blk.args, op.data_operands):
            I.set(a, I.get(o))
        r = I.run_block(blk)
        for res, v in zip(op.results, r):
            I.set(res, v)

    def h_mux(I, op):
        sw = I.get(op.switch)
        I.set(op.res, I.get(op.rhs) if sw == 1 else I.get(op.lhs))

    def h_yield(I, op):
        return tuple(I.get(o) for o in op.operands)

    I.handlers.update({"phs.choose": h_choose, "phs.mux": h_mux, "phs.yield": h_yield})
    r = I.run_block(block)
    return r[0]


def true_switch_assignment(pe, decoded):
    """decoded values go to the PE's TRUE switches in order (choose ops with >1 alternative and muxes); switches of
    one-alternative choose ops are 0."""
    from snaxc.dialects import phs

    out = []
    it = iter(decoded)
    n_true = 0
    for sw in pe.get_switches():
        user = sw.get_user_of_unique_use()
        is_true = isinstance(user, phs.MuxOp) or (isinstance(user, phs.ChooseOp) and len(list(user.operations())) > 1)
        if is_true:
            n_true += 1
            out.append(next(it, None))
        else:
            out.append(0)
    return out, n_true


def eval_kernel(g, data_vals):
    I = irsym.Interp(W=64)
    I.handlers["linalg.yield"] = lambda I, op: tuple(I.get(o) for o in op.operands)
    blk = g.body.block
    for a, v in zip(blk.args, list(data_vals) + [data_vals[0]]):
        I.set(a, v)
    return I.run_block(blk)[0]


# ------------------------------------------------------------------ one merge history


def case_history(case):
    from snaxc.phs.combine import append_to_abstract_graph
    from snaxc.phs.decode import MappingNotFoundError, decode_abstract_graph

    names, is_float = case
    pool = FLT_POOL if is_float else INT_POOL
    kernels = [pool[n] for n in names]

    def inputs(model=None):
        if is_float:
            s = irsym.float_sort("f32")
            return [z3.Const("a", s), z3.Const("b", s)]
        if model is not None:
            return [z3.BitVecVal(mval(model, "a"), 32), z3.BitVecVal(mval(model, "b"), 32)]
        return [z3.BitVec("a", 32), z3.BitVec("b", 32)]

    def walk(on_check):
        """merge the history; after each merge decode every kernel merged so far and call on_check."""
        _, abstract = encode(kernels[0], is_float)
        for step in range(len(kernels)):
            if step > 0:
                _, nxt = encode(kernels[step], is_float)
                append_to_abstract_graph(nxt, abstract)
            for j in range(step + 1):
                g, conc = encode(kernels[j], is_float)
                try:
                    decoded = list(decode_abstract_graph(abstract, conc))
                    err = None
                except (MappingNotFoundError, AssertionError, KeyError) as e:
                    decoded, err = None, f"{type(e).__name__}: {str(e)[:100]}"
                on_check(step, j, g, abstract, decoded, err)

    def fn():
        E = eng()
        data = inputs()

        def on_check(step, j, g, abstract, decoded, err):
            info = dict(after_merging=list(names[: step + 1]), decoding=names[j])
            if decoded is None:
                E.oblige("decode:earlier_kernel_stays_decodable", False, dict(info, error=err))
                return
            sw, n_true = true_switch_assignment(abstract, decoded)
            E.oblige("switches:count_equals_true_switches", z3.BoolVal(len(decoded) == n_true == abstract.get_true_switches()),
                     dict(info, decoded=len(decoded), true_switches=abstract.get_true_switches()))
            if None in sw or len(decoded) != n_true:
                return
            try:
                out = eval_pe(abstract, data, sw)
            except irsym.InterpError as e:
                E.oblige("pe:decoded_switches_select_existing_alternatives", False, dict(info, error=str(e)[:150], switches=sw))
                return
            ref = eval_kernel(g, data)
            E.oblige("pe:configured_as_decoded_computes_kernel", out == ref, dict(info, switches=sw))
        walk(on_check)
        # hardware view: number of switch fields of the accelerator
        E.oblige("explored", True)

    def replay(f):
        bad = []
        data = inputs(f["model"]) if not is_float else inputs()

        def on_check(step, j, g, abstract, decoded, err):
            info = f"after merging {list(names[: step + 1])} decoding {names[j]}"
            if decoded is None:
                bad.append(f"{info}: not decodable ({err})")
                return
            sw, n_true = true_switch_assignment(abstract, decoded)
            if len(decoded) != n_true or n_true != abstract.get_true_switches():
                bad.append(f"{info}: {len(decoded)} values for {n_true} true switches")
                return
            try:
                out = eval_pe(abstract, data, sw)
            except irsym.InterpError as e:
                bad.append(f"{info}: {e}")
                return
            ref = eval_kernel(g, data)
            if is_float:
                s = z3.Solver()
                s.add(out != ref)
                if str(s.check()) == "sat":
                    bad.append(f"{info}: switches={sw} PE computes {z3.simplify(out)} instead of {z3.simplify(ref)}")
            else:
                a, b = irsym.bvval(out), irsym.bvval(ref)
                if a != b:
                    bad.append(f"{info}: switches={sw} a={irsym.bvval(data[0])} b={irsym.bvval(data[1])} PE={a} kernel={b}")
        walk(on_check)
        return bool(bad), "; ".join(bad[:3])

    def sig(f, v):
        # situation: does the history contain a kernel using one value for both operands of an op
        tags = []
        if any(any(s1 == s2 for (_, s1, s2) in pool[n]) for n in names):
            tags.append("kernel_with_repeated_operand")
        return f["name"] + ("|" + "+".join(tags) if tags else "")

    return run_case(fn, replay, signature=sig, sample=dict(history=list(names), float=is_float), key=str(case), timeout_ms=20000)


def case_hw(case):
    """number of phs_switch_* fields of the accelerator == get_true_switches == len(decoded)"""
    from xdsl.ir.affine import AffineMap

    from snaxc.accelerators.snax_phs import SNAXPHSAccelerator
    from snaxc.phs.combine import append_to_abstract_graph
    from snaxc.phs.decode import decode_abstract_graph
    from snaxc.phs.template_spec import TemplateSpec

    names, is_float = case
    pool = FLT_POOL if is_float else INT_POOL

    def build():
        _, abstract = encode(pool[names[0]], is_float)
        for n in names[1:]:
            _, nxt = encode(pool[n], is_float)
            append_to_abstract_graph(nxt, abstract)
        m = AffineMap.identity(1)
        acc = SNAXPHSAccelerator(abstract, TemplateSpec((m, m), (m,), (4,)))
        _, conc = encode(pool[names[-1]], is_float)
        dec = list(decode_abstract_graph(abstract, conc))
        return abstract, acc, dec

    def fn():
        abstract, acc, dec = build()
        # one accelerator object asked for the switch values of every kernel in turn: each answer is the decode of THAT kernel
        for rep in range(2):
            for nm in names:
                g, conc = encode(pool[nm], is_float)
                want = list(decode_abstract_graph(abstract, conc))
                g2, _ = encode(pool[nm], is_float)
                got = [v.owner.value.value.data for _, v in acc.get_switch_values(g2)]
                eng().oblige("hw:accelerator_switch_values_are_the_decode_of_this_kernel", z3.BoolVal(got == want), dict(kernel=nm, got=got, decoded=want, history=list(names)))
        n = len([f for f in acc.fields if f.startswith("phs_switch_")])
        eng().oblige("hw:switch_fields_equal_true_switches_equal_decoded", z3.BoolVal(n == abstract.get_true_switches() == len(dec)),
                     dict(fields=n, true=abstract.get_true_switches(), decoded=len(dec)))

    def replay(f):
        abstract, acc, dec = build()
        n = len([x for x in acc.fields if x.startswith("phs_switch_")])
        return not (n == abstract.get_true_switches() == len(dec)), f"fields={n} true={abstract.get_true_switches()} decoded={len(dec)}"

    from ..harness import replay_pinned

    return run_case(fn, lambda f: replay_pinned(fn, f), signature=lambda f, v: "hw:switch_count" if f["name"].startswith("hw:switch_fields") else f["name"],
                    sample=dict(history=list(names)), key=str(case))


def run(chk):
    quick = chk.tier == "quick"
    rnd = random.Random(chk.seed)
    only = getattr(chk, "only", None)
    chk.functions = ["snaxc.phs.encode.convert_generic_body_to_phs/get_id", "snaxc.phs.combine.append_to_abstract_graph/uncollide_inputs",
                     "snaxc.phs.decode.decode_abstract_graph/search_mapping/valid_mapping", "snaxc.dialects.phs.PEOp/ChooseOp/MuxOp",
                     "snaxc.accelerators.snax_phs.SNAXPHSAccelerator (switch fields)"]
    chk.explanation = (
        "Merge histories of 1..5 kernel bodies (integer and float binary ops with differing operand routing) are merged in "
        "order with the real encode/combine API; after EACH merge every kernel merged so far is decoded with the real "
        "decode_abstract_graph. A PE evaluator (IR interpreter: choose = alternative selected by its switch, mux = rhs iff "
        "switch==1) turns the abstract PE with the decoded switch values into a term over the data inputs and z3 proves "
        "PE(inputs, switches) == kernel(inputs) for all inputs (32-bit bit-vectors; floats as uninterpreted functions). "
        "Undecodable earlier kernels, switch values selecting no alternative and switch-count mismatches "
        "(decoded / get_true_switches / accelerator switch fields) are violations.")
    chk.assumptions = ["float ops are uninterpreted functions (equal structure => equal value)", "histories are type-homogeneous (i32 or f32), two data inputs",
                       "decoded values are assigned to the PE's true switches in order, one-alternative choose switches are 0 (decode_abstract_graph's contract)"]
    cases = []
    ipool = sorted(INT_POOL)
    fpool = sorted(FLT_POOL)
    maxlen = 3 if quick else 4
    for L in range(1, maxlen + 1):
        perms = list(itertools.permutations(ipool, L))
        budget = {1: 10 ** 6, 2: 10 ** 6, 3: 500 if quick else 10 ** 6, 4: 12000}[L]
        if len(perms) > budget:
            perms = rnd.sample(perms, budget)
        cases += [(p, False) for p in perms]
    for L in range(1, 4):
        perms = list(itertools.permutations(fpool, L))
        if quick and len(perms) > 120:
            perms = rnd.sample(perms, 120)
        cases += [(p, True) for p in perms]
    # one operand slot routed from four different places (three chained muxes): the four `three*` kernels in every
    # order, alone and with shorter kernels in front / between
    deep = ["three", "three_a", "three_b", "three_1"]
    for perm in itertools.permutations(deep):
        cases.append((perm, False))
    for _ in range(30 if quick else 400):
        extra = rnd.sample([k for k in ipool if k not in deep], rnd.randint(1, 2))
        h = list(rnd.sample(deep, 4)) + extra
        rnd.shuffle(h)
        cases.append((tuple(h), False))
    if not quick:
        for _ in range(4000):
            cases.append((tuple(rnd.sample(ipool, 5)), False))
        for _ in range(1500):
            cases.append((tuple(rnd.sample(ipool, 6)), False))
    if only in (None, "hist"):
        chk.add_results("merge_histories", pmap(case_history, cases, chunks=8))
    hw = [(("sub_mul_yield_first", "sub_mul_yield_last"), False), (("sub_mul_yield_last", "sub_mul_yield_first", "mul"), False), (("sub", "sub_mul_yield_last", "sub_mul_yield_first"), False)]
    hw += [(p, False) for p in itertools.permutations(ipool[:8], 2)] + [(p, False) for p in rnd.sample(list(itertools.permutations(ipool, 3)), 60)]
    if only in (None, "hw"):
        chk.add_results("hardware_switch_count", pmap(case_hw, hw, chunks=8))
    chk.bounds = dict(int_pool=ipool, float_pool=fpool, history_length=f"1..{maxlen} (+ the four three-operation kernels that route one operand from four places, in every order, + sampled 5 and 6 in thorough)", widths=32)
    chk.outside = ["kernels with more than 2 data inputs or more than 3 ops", "mixed-type histories", "float rounding (uninterpreted)"]
