"""C19 - canonical forms and alternative representations denote the same object."""

from __future__ import annotations

import itertools
import random

import numpy as np
import z3

from .. import irsym, sym
from ..harness import mval, replay_pinned, run_case
from ..runner import pmap
from ..sym import SymBool, SymInt, eng

LEVEL = "other"

from xdsl.ir.affine import (  # noqa: E402
    AffineBinaryOpExpr,
    AffineBinaryOpKind,
    AffineConstantExpr,
    AffineDimExpr,
    AffineMap,
)

K = AffineBinaryOpKind

# ------------------------------------------------------------------ (a) canonicalize_expr

NDIMS = 2


def gen_trees(depth, divisors):
    """All raw expression trees (tuples) of height <= depth.
    ('d',i) ('c',) ('+',l,r) ('*',l,'c') ('*','c',l) ('//',l,k) ('%',l,k)"""
    leaves = [("d", i) for i in range(NDIMS)] + [("c",)]
    levels = [leaves]
    allprev = list(leaves)
    for _ in range(depth):
        new = []
        for l, r in itertools.product(allprev, repeat=2):
            new.append(("+", l, r))
        for l in allprev:
            new.append(("*", l, ("c",)))
            new.append(("*", ("c",), l))
            for k in divisors:
                new.append(("//", l, k))
                new.append(("%", l, k))
        seen = set(allprev)
        new = [t for t in new if t not in seen]
        levels.append(new)
        allprev = allprev + new
    return allprev


def build_expr(t, consts):
    """tuple tree -> raw AffineExpr (constructor, no operator simplification). consts: iterator of values."""
    if t[0] == "d":
        return AffineDimExpr(t[1])
    if t[0] == "c":
        return AffineConstantExpr(next(consts))
    if t[0] == "+":
        return AffineBinaryOpExpr(K.Add, build_expr(t[1], consts), build_expr(t[2], consts))
    if t[0] == "*":
        return AffineBinaryOpExpr(K.Mul, build_expr(t[1], consts), build_expr(t[2], consts))
    if t[0] == "//":
        return AffineBinaryOpExpr(K.FloorDiv, build_expr(t[1], consts), AffineConstantExpr(t[2]))
    if t[0] == "%":
        return AffineBinaryOpExpr(K.Mod, build_expr(t[1], consts), AffineConstantExpr(t[2]))
    raise ValueError(t)


def n_consts(t):
    if t[0] == "c":
        return 1
    if t[0] == "d":
        return 0
    return sum(n_consts(x) for x in t[1:] if isinstance(x, tuple))


def struct_eq(a, b):
    """z3 Bool: structural equality of two AffineExprs (constants compared by value)."""
    if type(a) is not type(b):
        return z3.BoolVal(False)
    if isinstance(a, AffineConstantExpr):
        return sym.zint(a.value) == sym.zint(b.value)
    if isinstance(a, AffineDimExpr):
        return z3.BoolVal(a.position == b.position)
    if isinstance(a, AffineBinaryOpExpr):
        if a.kind is not b.kind:
            return z3.BoolVal(False)
        return z3.And(struct_eq(a.lhs, b.lhs), struct_eq(a.rhs, b.rhs))
    return z3.BoolVal(a == b)


def case_canon(tree, crange=None):
    from snaxc.util.canonicalize_affine import canonicalize_expr, canonicalize_map

    nc = n_consts(tree)

    def fn():
        cs = [sym.sym(f"c{i}", *(crange or (None, None))) for i in range(nc)]
        ds = [sym.sym(f"d{i}") for i in range(NDIMS)]
        e = build_expr(tree, iter(cs))
        c = canonicalize_expr(e)
        v0 = e.eval(ds, [])
        v1 = c.eval(ds, [])
        eng().oblige("canon_expr:eval", sym.zint(v0) == sym.zint(v1), dict(canon=None))
        c2 = canonicalize_expr(c)
        eng().oblige("canon_expr:idempotent", struct_eq(c, c2))
        m = canonicalize_map(AffineMap(NDIMS, 0, (e,)))
        eng().oblige("canon_map:eval", sym.zint(m.eval(ds, [])[0]) == sym.zint(v0))

    def replay(f):
        m = f["model"]
        cs = [mval(m, f"c{i}") for i in range(nc)]
        ds = [mval(m, f"d{i}") for i in range(NDIMS)]
        e = build_expr(tree, iter(cs))
        c = canonicalize_expr(e)
        if f["name"].endswith("idempotent"):
            c2 = canonicalize_expr(c)
            return c2 != c, f"expr={e} canon={c} canon2={c2}"
        v0, v1 = e.eval(ds, []), c.eval(ds, [])
        return v0 != v1, f"expr={e} canon={c} dims={ds} eval={v0} vs {v1}"

    return run_case(fn, replay, witness=True, signature=lambda f, v: f["name"], sample=dict(tree=str(tree)), key=str(tree),
                    reject=(Exception, RecursionError))


# ------------------------------------------------------------------ (b) AffineTransform


def case_transform(case):
    from snaxc.ir.dart.affine_transform import AffineTransform

    kind = case[0]
    if kind == "compose_sym":
        _, r, m, n = case

        def mk(get):
            A = np.array([[get(f"a{i}_{j}") for j in range(m)] for i in range(r)], dtype=object).reshape(r, m)
            b = np.array([get(f"b{i}") for i in range(r)], dtype=object)
            C = np.array([[get(f"c{i}_{j}") for j in range(n)] for i in range(m)], dtype=object).reshape(m, n)
            d = np.array([get(f"d{i}") for i in range(m)], dtype=object)
            x = np.array([get(f"x{i}") for i in range(n)], dtype=object)
            return AffineTransform(A, b), AffineTransform(C, d), x

        def fn():
            T1, T2, x = mk(lambda nm: sym.sym(nm))
            T = T1.compose(T2)
            l, rr = T.eval(x), T1.eval(T2.eval(x))
            for i in range(r):
                eng().oblige(f"compose:row", sym.zint(l[i]) == sym.zint(rr[i]))
            # batch form agrees with single-vector form
            X = np.array([x, x], dtype=object)
            lb = T.eval(X)
            for i in range(r):
                eng().oblige("eval:batch", sym.zint(lb[1][i]) == sym.zint(l[i]))

        def replay(f):
            T1, T2, x = mk(lambda nm: mval(f["model"], nm))
            T1 = AffineTransform(T1.A.astype(int), T1.b.astype(int))
            T2 = AffineTransform(T2.A.astype(int), T2.b.astype(int))
            x = x.astype(int)
            l, rr = T1.compose(T2).eval(x), T1.eval(T2.eval(x))
            return (l != rr).any(), f"compose {l} vs {rr}"

        return run_case(fn, replay, witness=True, sample=dict(kind=kind, shape=(r, m, n)), key=str(case))
    if kind == "nonlinear":
        # maps with mod / floordiv / ceildiv somewhere inside: to be refused, or converted exactly (never "linearised")
        from xdsl.parser import Parser

        from .. import xshim

        _, txt, n = case

        def fn():
            m = Parser(xshim.make_ctx(), f"affine_map<{txt}>").parse_attribute().data
            try:
                T = AffineTransform.from_affine_map(m)
            except ValueError:
                eng().oblige("from_affine_map:non_linear_map_refused_or_exact", True)
                return
            # accepted: then it has to agree with the map on concrete points where the non-linear term wraps
            pts = [[k * (j + 1) % 23 for j in range(n)] for k in range(24)]
            bad = [p for p in pts if list(T.eval(np.array(p))) != list(m.eval(p, []))]
            eng().oblige("from_affine_map:non_linear_map_refused_or_exact", z3.BoolVal(not bad), dict(map=txt, differs_at=bad[:3]))

        return run_case(fn, lambda f: replay_pinned(fn, f), witness=False, signature=lambda f, v: f["name"], sample=dict(kind=kind, map=txt), key=str(case))
    if kind == "interop":
        _, A, b = case
        A = np.array(A, dtype=int)
        b = np.array(b, dtype=int)
        r, n = A.shape

        def themap():
            res = []
            for i in range(r):
                e = AffineConstantExpr(int(b[i]))
                for j in range(n):
                    # raw (unsimplified) construction, constants on the left
                    e = AffineBinaryOpExpr(K.Add, AffineBinaryOpExpr(K.Mul, AffineConstantExpr(int(A[i, j])), AffineDimExpr(j)), e)
                res.append(e)
            return AffineMap(n, 0, tuple(res))

        def fn():
            x = [sym.sym(f"x{i}") for i in range(n)]
            m = themap()
            T = AffineTransform.from_affine_map(m)
            ref = m.eval(x, [])
            got = T.eval(np.array(x, dtype=object))
            back = T.to_affine_map().eval(x, [])
            for i in range(r):
                eng().oblige("from_affine_map:eval", sym.zint(got[i]) == sym.zint(ref[i]))
                eng().oblige("to_affine_map:eval", sym.zint(back[i]) == sym.zint(ref[i]))

        def replay(f):
            x = [mval(f["model"], f"x{i}") for i in range(n)]
            m = themap()
            T = AffineTransform.from_affine_map(m)
            ref = list(m.eval(x, []))
            got = list(T.eval(np.array(x)))
            back = list(T.to_affine_map().eval(x, []))
            return got != ref or back != ref, f"map={m} x={x} ref={ref} transform={got} back={back}"

        return run_case(fn, replay, witness=True, sample=dict(kind=kind, A=A.tolist(), b=b.tolist()), key=str(case))
    raise ValueError(case)


# ------------------------------------------------------------------ (c) AccessPattern.canonicalize / inner_dims


def case_access(case):
    from snaxc.ir.dart.access_pattern import SchedulePattern, TemplatePattern
    from snaxc.ir.dart.affine_transform import AffineTransform

    cls_name, A, b = case
    A = np.array(A, dtype=int)
    b = np.array(b, dtype=int)
    r, n = A.shape
    cls = SchedulePattern if cls_name == "schedule" else TemplatePattern

    def fn():
        B = [sym.sym(f"B{i}", 1, None) for i in range(n)]
        x = [sym.sym(f"x{i}", 0, None) for i in range(n)]
        for i in range(n):
            eng().assume(x[i].z < B[i].z)
        p = cls(B, AffineTransform(A, b))
        with sym.eager():  # the comparison results become a numpy boolean mask
            c = p.canonicalize()
        # the canonical pattern keeps dims with bound > 1 in order; x restricted to those dims
        keep = [i for i in range(n) if eng().branch(B[i].z > 1)]
        eng().oblige("access_canon:ndims", c.num_dims == len(keep))
        if c.num_dims == len(keep):
            for j, i in enumerate(keep):
                eng().oblige("access_canon:bounds", sym.zint(c.bounds[j]) == B[i].z)
            xk = np.array([x[i] for i in keep], dtype=object)
            got = c.pattern.eval(xk) if len(keep) else c.pattern.b
            ref = p.pattern.eval(np.array(x, dtype=object))
            for i in range(r):
                eng().oblige("access_canon:eval", sym.zint(got[i]) == sym.zint(ref[i]))
        for d in range(1, n + 1):
            q = p.inner_dims(d)
            xi = np.array(x[n - d:], dtype=object)
            x0 = np.array([0] * (n - d) + x[n - d:], dtype=object)
            g, rf = q.pattern.eval(xi), p.pattern.eval(x0)
            for i in range(r):
                eng().oblige("inner_dims:eval", sym.zint(g[i]) == sym.zint(rf[i]))
            for j in range(d):
                eng().oblige("inner_dims:bounds", sym.zint(q.bounds[j]) == B[n - d + j].z)

    def replay(f):
        m = f["model"]
        B = [mval(m, f"B{i}", 1) for i in range(n)]
        x = [mval(m, f"x{i}") for i in range(n)]
        p = cls(B, AffineTransform(A, b))
        c = p.canonicalize()
        keep = [i for i in range(n) if B[i] > 1]
        bad = []
        if c.num_dims != len(keep) or list(c.bounds) != [B[i] for i in keep]:
            bad.append(f"bounds {c.bounds} vs {[B[i] for i in keep]}")
        else:
            got = c.pattern.eval(np.array([x[i] for i in keep], dtype=int)) if keep else c.pattern.b
            ref = p.pattern.eval(np.array(x, dtype=int))
            if list(got) != list(ref):
                bad.append(f"canon eval {got} vs {ref}")
        for d in range(1, n + 1):
            q = p.inner_dims(d)
            g = q.pattern.eval(np.array(x[n - d:], dtype=int))
            rf = p.pattern.eval(np.array([0] * (n - d) + x[n - d:], dtype=int))
            if list(g) != list(rf) or list(q.bounds) != B[n - d:]:
                bad.append(f"inner_dims({d}) {g} vs {rf}")
        return bool(bad), f"A={A.tolist()} b={b.tolist()} B={B} x={x}: {bad}"

    return run_case(fn, replay, witness=True, sample=dict(cls=cls_name, A=A.tolist(), b=b.tolist()), key=str(case))


def case_collection(case):
    """Schedule / Template canonicalised as a whole: every member keeps visiting its own points, also when the members'
    bounds differ (a dimension with a single trip in one member and several in another)."""
    from snaxc.ir.dart.access_pattern import Schedule, SchedulePattern, Template, TemplatePattern
    from snaxc.ir.dart.affine_transform import AffineTransform

    cls_name, members = case
    pcls, ccls = (SchedulePattern, Schedule) if cls_name == "schedule" else (TemplatePattern, Template)
    mats = [(np.array(A, dtype=int), np.array(b, dtype=int)) for A, b in members]
    n = mats[0][0].shape[1]

    def check(Bs, xs, branch, oblige):
        pats = [pcls(Bs[k], AffineTransform(A, b)) for k, (A, b) in enumerate(mats)]
        with sym.eager():
            cs = list(ccls(pats).canonicalize())
        oblige("collection_canon:members", len(cs) == len(pats), None)
        for k, (p, c) in enumerate(zip(pats, cs)):
            keep = [i for i in range(n) if branch(Bs[k][i])]
            oblige("collection_canon:ndims", c.num_dims == len(keep), dict(member=k))
            if c.num_dims != len(keep):
                continue
            for j, i in enumerate(keep):
                oblige("collection_canon:bounds", sym.zint(c.bounds[j]) == sym.zint(Bs[k][i]), dict(member=k))
            got = c.pattern.eval(np.array([xs[k][i] for i in keep], dtype=object)) if keep else c.pattern.b
            ref = p.pattern.eval(np.array(xs[k], dtype=object))
            for i in range(len(ref)):
                oblige("collection_canon:eval", sym.zint(got[i]) == sym.zint(ref[i]), dict(member=k))

    def fn():
        E = eng()
        Bs = [[sym.sym(f"B{k}_{i}", 1, None) for i in range(n)] for k in range(len(mats))]
        xs = [[sym.sym(f"x{k}_{i}", 0, None) for i in range(n)] for k in range(len(mats))]
        for k in range(len(mats)):
            for i in range(n):
                E.assume(xs[k][i].z < Bs[k][i].z)
        check(Bs, xs, lambda Bv: E.branch(Bv.z > 1), lambda nm, c, info: E.oblige(nm, c, info))

    def replay(f):
        m = f["model"]
        Bs = [[mval(m, f"B{k}_{i}", 1) for i in range(n)] for k in range(len(mats))]
        xs = [[mval(m, f"x{k}_{i}") for i in range(n)] for k in range(len(mats))]
        bad = []

        def oblige(nm, c, info):
            ok = bool(z3.is_true(z3.simplify(c))) if z3.is_expr(c) else bool(c)
            if not ok:
                bad.append((nm, info))

        try:
            check(Bs, xs, lambda Bv: Bv > 1, oblige)
        except Exception as e:
            bad.append((f"{type(e).__name__}: {str(e)[:80]}", None))
        return bool(bad), f"members={members} bounds={Bs} x={xs}: {bad[:3]}"

    return run_case(fn, replay, witness=True, sample=dict(cls=cls_name, members=str(members)), key=str(case), max_paths=300)


# ------------------------------------------------------------------ (d) StridePattern.canonicalize


def stream_addr_digits(ubs, tss, digits):
    return sum(sym.zint(d) * sym.zint(t) for d, t in zip(digits, tss)) if ubs else z3.IntVal(0)


def case_stride(case):
    """ub concrete (enumerated), ts/ss symbolic.  Semantics: the streamer visits temporal step t (mixed radix,
    innermost first) at address sum(digit_i * ts_i); every port j adds ss_j * s_j."""
    from snaxc.dialects.snax_stream import StridePattern

    ubs, nss, zero_ss = case
    n = len(ubs)
    total = int(np.prod(ubs)) if ubs else 1

    def digits_of(t, bounds):
        out = []
        for ub in bounds:
            if ub == 0:
                out.append(z3.IntVal(0))
                continue
            out.append(t % ub)
            t = t / ub
        return out

    def fn():
        ts = [sym.sym(f"ts{i}") for i in range(n)]
        ss = [sym.sym(f"ss{i}") for i in range(nss)]
        if zero_ss is not None and nss:
            eng().assume(ss[zero_ss].z == 0)
        p = StridePattern(list(ubs), ts, ss)
        c = p.canonicalize()
        cub = [x.data for x in c.upper_bounds]
        cts = [x.data for x in c.temporal_strides]
        for u in cub:
            if isinstance(u, SymInt):
                raise sym.Unsupported("symbolic canonical bound")
        ctotal = int(np.prod([int(u) for u in cub])) if cub else 1
        eng().oblige("stride_canon:steps", z3.BoolVal(ctotal == total), dict(ub=ubs, cub=[int(u) for u in cub]))
        eng().oblige("stride_canon:lens", z3.BoolVal(len(cub) == len(cts)))
        # spatial strides untouched
        eng().oblige("stride_canon:ss", z3.And([sym.zint(a.data) == b.z for a, b in zip(c.spatial_strides, ss)]
                                                + [z3.BoolVal(len(c.spatial_strides) == nss)]))
        if ctotal == total and total > 0:
            t = z3.Int("t")
            eng().assume(z3.And(t >= 0, t < total))
            a0 = sum((d * sym.zint(s) for d, s in zip(digits_of(t, ubs), ts)), z3.IntVal(0))
            a1 = sum((d * sym.zint(s) for d, s in zip(digits_of(t, [int(u) for u in cub]), cts)), z3.IntVal(0))
            eng().oblige("stride_canon:addr", a0 == a1)
        # idempotent
        c2 = c.canonicalize()
        same = [z3.BoolVal(len(c2.upper_bounds) == len(cub))]
        if len(c2.upper_bounds) == len(cub):
            same += [sym.zint(a.data) == sym.zint(b) for a, b in zip(c2.upper_bounds, cub)]
            same += [sym.zint(a.data) == sym.zint(b) for a, b in zip(c2.temporal_strides, cts)]
        eng().oblige("stride_canon:idempotent", z3.And(same))

    def replay(f):
        m = f["model"]
        ts = [mval(m, f"ts{i}") for i in range(n)]
        ss = [mval(m, f"ss{i}") for i in range(nss)]
        p = StridePattern(list(ubs), ts, ss)
        c = p.canonicalize()
        cub = [x.data for x in c.upper_bounds]
        cts = [x.data for x in c.temporal_strides]

        def addrs(ub, tsv):
            out = []
            tot = int(np.prod(ub)) if ub else 1
            for t in range(tot):
                a = 0
                for u, s in zip(ub, tsv):
                    a += (t % u) * s
                    t //= u
                out.append(a)
            return out

        a0, a1 = addrs(list(ubs), ts), addrs(cub, cts)
        c2 = c.canonicalize()
        bad = a0 != a1 or c2 != c or [x.data for x in c.spatial_strides] != ss
        return bad, f"ub={ubs} ts={ts} ss={ss} canon ub={cub} ts={cts}; addr {a0[:8]} vs {a1[:8]}"

    return run_case(fn, replay, witness=True, sample=dict(ub=ubs, nss=nss), key=str(case))


# ------------------------------------------------------------------ (e) pack_bitlist


def case_pack(case):
    from xdsl.dialects import arith, builtin, test
    from xdsl.dialects.builtin import IntegerType

    from snaxc.util.pack_bitlist import pack_bitlist

    n, w, kinds = case  # kinds: per item 'ss','si','is','ii' value/offset ssa-or-int

    def build(getint):
        ty = IntegerType(w)
        vals, offs, srcs = [], [], []
        for i, k in enumerate(kinds):
            if k[0] == "s":
                o = test.TestOp(result_types=[ty])
                srcs.append(("v", i, o))
                vals.append(o.res[0])
            else:
                vals.append(getint(f"v{i}"))
            if k[1] == "s":
                o = test.TestOp(result_types=[ty])
                srcs.append(("o", i, o))
                offs.append(o.res[0])
            else:
                offs.append(getint(f"o{i}"))
        ops = list(pack_bitlist(vals, offs, w))
        return srcs, ops

    def execute(srcs, ops, getbv):
        I = irsym.Interp(W=32)
        for kind, i, o in srcs:
            I.set(o.res[0], getbv(f"{kind}{i}"))
        for op in ops:
            I.run_op(op)
        return I.get(ops[-1].results[0]) if ops else None

    def fn():
        ibv = {}

        def getint(nm):
            # python-int inputs: modelled as the unsigned value of a w-bit vector (so Int2BV(BV2Int(x)) folds);
            # offsets must be < w
            ibv[nm] = z3.BitVec(nm + "_int", w)
            if nm[0] == "o":
                eng().assume(z3.ULT(ibv[nm], w))
            return SymInt(z3.BV2Int(ibv[nm], False))

        srcs, ops = build(getint)
        bvs = {}

        def getbv(nm):
            bvs[nm] = z3.BitVec(nm + "_ssa", w)
            if nm[0] == "o":
                eng().assume(z3.ULT(bvs[nm], w))
            return bvs[nm]

        try:
            for op in ops:
                op.verify()
            res = execute(srcs, ops, getbv)
        except (sym.Unsupported, sym.PathAbort):
            raise
        except Exception as e:  # operand widths that do not fit together
            eng().oblige("pack_bitlist:emitted_ops_are_well_typed", False, dict(error=f"{type(e).__name__}: {str(e)[:120]}"))
            return
        exp = z3.BitVecVal(0, w)
        for i, k in enumerate(kinds):
            v = bvs[f"v{i}"] if k[0] == "s" else ibv[f"v{i}"]
            o = bvs[f"o{i}"] if k[1] == "s" else ibv[f"o{i}"]
            exp = exp | (v << o)
        eng().oblige("pack_bitlist:value", res == exp)
        eng().oblige("pack_bitlist:width", z3.BoolVal(res.size() == w))

    def replay(f):
        m = f["model"]
        srcs, ops = build(lambda nm: mval(m, nm + "_int"))
        try:
            for op in ops:
                op.verify()
            res = execute(srcs, ops, lambda nm: z3.BitVecVal(mval(m, nm + "_ssa"), w))
        except Exception as e:
            return True, f"kinds={kinds} w={w}: emitted ops are not well typed: {type(e).__name__}: {str(e)[:160]}"
        got = irsym.bvval(res)
        exp = 0
        for i, k in enumerate(kinds):
            v = mval(m, f"v{i}_ssa") if k[0] == "s" else mval(m, f"v{i}_int")
            o = mval(m, f"o{i}_ssa") if k[1] == "s" else mval(m, f"o{i}_int")
            exp |= (v << o)
        exp &= (1 << w) - 1
        return got != exp, f"kinds={kinds} w={w} got={got} expected={exp} model={m}"

    return run_case(fn, replay, witness=True, sample=dict(n=n, width=w, kinds=kinds), key=str(case))


# ------------------------------------------------------------------ (f) print -> parse

def opt_classes():
    """Streamer option classes by class name, collected from the class hierarchy and not from the name table the parser uses."""
    import inspect

    import snaxc.accelerators.streamers.extensions as ext
    import snaxc.accelerators.streamers.streamers as st

    out = {}
    todo = list(st.StreamerOpts.__subclasses__())
    while todo:
        c = todo.pop()
        todo.extend(c.__subclasses__())
        if inspect.isabstract(c):
            continue
        if getattr(ext, c.__name__, None) is c or getattr(st, c.__name__, None) is c:
            out[c.__name__] = c
    return out



def case_printparse(case):
    from xdsl.parser import Parser
    from xdsl.printer import Printer
    import io

    from snaxc.dialects.snax_stream import StridePattern
    from snaxc.dialects.snax import StreamerConfigurationAttr
    from snaxc.accelerators.streamers.streamers import Streamer, StreamerConfiguration, StreamerSystemType, StreamerType
    from .. import xshim

    OPT_CLASSES = opt_classes()
    ctx = xshim.make_ctx()
    kind = case[0]

    def roundtrip(attr):
        s = io.StringIO()
        Printer(stream=s).print_attribute(attr)
        txt = s.getvalue()
        return txt, Parser(ctx, txt).parse_attribute()

    if kind == "stride":
        _, nt, ns, classes = case  # classes: per int a sign class 'neg','zero','pos','big'

        def fn():
            names = [f"u{i}" for i in range(nt)] + [f"t{i}" for i in range(nt)] + [f"s{i}" for i in range(ns)]
            vals = []
            for nm, cl in zip(names, classes):
                v = sym.sym(nm)
                eng().assume({"neg": v.z < 0, "zero": v.z == 0, "pos": z3.And(v.z > 0, v.z < 2 ** 31),
                              "big": v.z >= 2 ** 31}[cl])
                vals.append(v)
            # concretise at the str() boundary: solver-chosen representative of the class
            conc = [eng().concretise(v) for v in vals]
            p = StridePattern(conc[:nt], conc[nt:2 * nt], conc[2 * nt:])
            txt, q = roundtrip(p)
            eng().oblige("stride_pattern:print_parse", z3.BoolVal(q == p), dict(text=txt))

        def replay(f):
            m = f["model"]
            names = [f"u{i}" for i in range(nt)] + [f"t{i}" for i in range(nt)] + [f"s{i}" for i in range(ns)]
            conc = [mval(m, nm) for nm in names]
            p = StridePattern(conc[:nt], conc[nt:2 * nt], conc[2 * nt:])
            try:
                txt, q = roundtrip(p)
            except Exception as e:
                return True, f"{p}: parse failed {e}"
            return q != p, f"{txt} -> {q}"

        return run_case(fn, replay, witness=True, sample=dict(kind=kind, nt=nt, ns=ns, classes=classes), key=str(case))
    if kind == "config":
        _, streamers, systype = case

        def mk():
            ss = [Streamer(StreamerType(t), list(temp), list(spat), [OPT_CLASSES[o]() for o in opts])
                  for (t, temp, spat, opts) in streamers]
            return StreamerConfigurationAttr(StreamerConfiguration(ss, StreamerSystemType(systype)))

        def cfg_eq(a, b):
            A, B = a.data, b.data
            if A.system_type() != B.system_type() or len(A.streamers) != len(B.streamers):
                return False
            for x, y in zip(A.streamers, B.streamers):
                if (x.type, x.temporal_dims, x.spatial_dims, [type(o) for o in x.opts]) != \
                        (y.type, y.temporal_dims, y.spatial_dims, [type(o) for o in y.opts]):
                    return False
            return True

        def fn():
            a = mk()
            txt, b = roundtrip(a)
            eng().oblige("streamer_config:print_parse", z3.BoolVal(cfg_eq(a, b)), dict(text=txt))

        def replay(f):
            a = mk()
            try:
                txt, b = roundtrip(a)
            except Exception as e:
                return True, f"parse failed {e}"
            return not cfg_eq(a, b), f"{txt}"

        def sig(f, v):
            return "streamer_config:print_parse:" + ("xdma" if systype == "xdma" else "reg")

        return run_case(fn, replay, witness=True, signature=sig, sample=dict(kind=kind, streamers=streamers, systype=systype),
                        key=str(case))
    raise ValueError(case)


# ------------------------------------------------------------------ driver


def run(chk):
    quick = chk.tier == "quick"
    rnd = random.Random(chk.seed)
    chk.functions = [
        "snaxc.util.canonicalize_affine.canonicalize_expr/canonicalize_map",
        "snaxc.ir.dart.affine_transform.AffineTransform.from_affine_map/to_affine_map/compose/eval",
        "snaxc.ir.dart.access_pattern.AccessPattern.canonicalize/inner_dims, PatternCollection.canonicalize (members with their own bounds)",
        "snaxc.dialects.snax_stream.StridePattern.canonicalize/print_parameters/parse_parameters",
        "snaxc.util.pack_bitlist.pack_bitlist",
        "snaxc.dialects.snax.StreamerConfigurationAttr.print_parameter/parse_parameter",
        "xdsl.ir.affine.AffineExpr.eval/__add__/__mul__ (executed, trusted platform)",
    ]
    chk.explanation = (
        "Bounded symbolic execution of the real Python functions with z3-backed int proxies; every obligation is "
        "discharged as unsat(path condition and not phi). Structures (expression tree shapes, matrix shapes, bound "
        "vectors, option sets) are enumerated; numbers (constants, dims, strides, vectors, bit-field values and "
        "offsets) are symbolic and unbounded unless stated. Print/parse sub-clause: solver-chosen representatives "
        "per sign class, concretised at str() (not a for-all claim).")
    chk.assumptions = [
        "xdsl 0.70.0 + import shim; xdsl AffineExpr/Parser/Printer executed, trusted",
        "affine floordiv/mod divisors are concrete and positive (from {1,2,3} quick / {1,2,3,4,8} thorough)",
        "pack_bitlist: offsets < bit width (MLIR shli is poison otherwise); values passed as python ints fit the type",
        "StridePattern.canonicalize: upper bounds enumerated in 0..3 (quick) / 0..5 (thorough), strides symbolic unbounded",
        "a RecursionError/exception of the real function is tallied as rejected input, not a verdict",
    ]
    # (a)
    divs = (1, 2, 3) if quick else (1, 2, 3, 4, 8)
    trees = gen_trees(2 if quick else 2, divs)
    if not quick:
        # depth 3 sampled by seed
        d3 = gen_trees(1, divs)
        pool = trees
        extra = set()
        while len(extra) < 1500:
            a, b = rnd.choice(pool), rnd.choice(pool)
            op = rnd.choice(["+", "*l", "*r", "//", "%"])
            t = {"+": ("+", a, b), "*l": ("*", a, ("c",)), "*r": ("*", ("c",), a), "//": ("//", a, rnd.choice(divs)),
                 "%": ("%", a, rnd.choice(divs))}[op]
            extra.add(t)
        trees = trees + sorted(extra, key=str)
    if getattr(chk, "only", None) in (None, "canon"):
        chk.add_results("canonicalize_expr", pmap(case_canon, trees, chunks=8))
    chk.bounds["canonicalize_expr"] = dict(trees=len(trees), height="<=2 exhaustive" + ("" if quick else " + 1500 sampled height 3"),
                                           dims=NDIMS, divisors=list(divs), constants="symbolic unbounded")
    # (b)
    cases = [("compose_sym", r, m, n) for r in (1, 2, 3) for m in (1, 2, 3) for n in (1, 2, 3)]
    ent = (-1, 0, 2)
    for r, n in ((1, 1), (1, 2), (2, 1), (2, 2)) + (() if quick else ((2, 3), (3, 2))):
        allA = list(itertools.product(ent, repeat=r * n))
        if len(allA) > 81:
            allA = rnd.sample(allA, 81)
        for flat in allA:
            for b in itertools.product((0, 3), repeat=r):
                cases.append(("interop", [list(flat[i * n:(i + 1) * n]) for i in range(r)], list(b)))
    for txt, n_ in (("(d0) -> (d0 mod 4)", 1), ("(d0) -> (d0 floordiv 2)", 1), ("(d0) -> (d0 ceildiv 2)", 1), ("(d0) -> (d0 mod 4 + 2)", 1),
                    ("(d0, d1) -> (d0, d1 mod 8)", 2), ("(d0, d1) -> (d0 floordiv 4 + d1, d1)", 2), ("(d0, d1) -> ((d0 + d1) mod 3)", 2),
                    ("(d0) -> ((d0 ceildiv 4) * 2 + 1)", 1), ("(d0, d1) -> (d0 * 2 + d1 mod 2, d0)", 2)):
        cases.append(("nonlinear", txt, n_))
    if getattr(chk, "only", None) in (None, "transform"):
        chk.add_results("affine_transform", pmap(case_transform, cases, chunks=8))
    chk.bounds["affine_transform"] = dict(compose="fully symbolic matrices/vectors, shapes <= 3x3x3",
                                          interop="concrete matrices entries {-1,0,2}, b in {0,3}, symbolic x")
    # (c)
    cases = []
    for n in (1, 2, 3) + (() if quick else (4,)):
        mats = [np.eye(n, dtype=int).tolist(), [[1] * n], [[(i + 1) for i in range(n)], [0] * (n - 1) + [2]]]
        for A in mats:
            for cls in ("schedule", "template"):
                cases.append((cls, A, [0] * len(A)))
                cases.append((cls, A, [3] * len(A)))
    if getattr(chk, "only", None) in (None, "access"):
        chk.add_results("access_pattern", pmap(case_access, cases))
    ccases = []
    for n in (1, 2) + (() if quick else (3,)):
        eye, ones, mix = np.eye(n, dtype=int).tolist(), [[1] * n], [[(i + 1) for i in range(n)], [0] * (n - 1) + [2]]
        for cls in ("schedule", "template"):
            ccases.append((cls, [(eye, [0] * n), (ones, [3])]))
            ccases.append((cls, [(mix, [0, 1]), (eye, [0] * n), (ones, [0])]))
            ccases.append((cls, [(ones, [0]), (mix, [2, 0])]))
    if getattr(chk, "only", None) in (None, "access"):
        chk.add_results("pattern_collection", pmap(case_collection, ccases))
    chk.bounds["access_pattern"] = dict(dims="1..3 quick / 1..4 thorough", bounds="symbolic >= 1 unbounded")
    # (d)
    maxub, maxn = (3, 3) if quick else (5, 4)
    cases = []
    for n in range(0, maxn + 1):
        for ubs in itertools.product(range(0, maxub + 1), repeat=n):
            if not quick and n == 4 and rnd.random() > 0.25:
                continue
            cases.append((list(ubs), 1, None))
    for n in (1, 2):
        for ubs in itertools.product(range(0, 3), repeat=n):
            cases.append((list(ubs), 2, 0))
            cases.append((list(ubs), 0, None))
    if getattr(chk, "only", None) in (None, "stride"):
        chk.add_results("stride_pattern_canonicalize", pmap(case_stride, cases, chunks=4))
    chk.bounds["stride_pattern_canonicalize"] = dict(ub=f"0..{maxub}", dims=f"0..{maxn}", ts="symbolic", ss="symbolic")
    # (e)
    cases = []
    for w in (32, 64):
        for n in range(1, 5 if quick else 9):
            if n <= 2:
                for kinds in itertools.product(("ss", "si", "is", "ii"), repeat=n):
                    cases.append((n, w, list(kinds)))
            else:
                cases.append((n, w, ["ss"] * n))
                cases.append((n, w, ["ii"] * n))
                cases.append((n, w, [("ss", "si", "is", "ii")[i % 4] for i in range(n)]))
    if getattr(chk, "only", None) in (None, "pack"):
        chk.add_results("pack_bitlist", pmap(case_pack, cases))
    chk.bounds["pack_bitlist"] = dict(n="1..4 quick / 1..8 thorough", widths=[32, 64])
    # (f)
    cases = []
    cls4 = ("neg", "zero", "pos", "big")
    for nt, ns in ((0, 0), (1, 1), (2, 1), (1, 2)):
        k = 2 * nt + ns
        combos = list(itertools.product(cls4, repeat=k))
        if len(combos) > 64:
            combos = rnd.sample(combos, 64 if quick else 256)
        for c in combos:
            cases.append(("stride", nt, ns, list(c)))
    optnames = sorted(opt_classes())
    for systype in ("reg", "xdma"):
        for t in ("r", "w"):
            for temp in (["n"], ["n", "i", "r"], ["r", "n", "n", "n", "n", "i"]):
                for spat in ([8], [8, 8], []):
                    for k in (0, 1, 2):
                        for opts in ([tuple(rnd.sample(optnames, k))] if k else [()]):
                            cases.append(("config", [(t, temp, spat, list(opts))], systype))
        for nopt in range(len(optnames)):
            cases.append(("config", [("r", ["n", "n"], [8], [optnames[nopt]]), ("w", ["n"], [4, 2], [])], systype))
    if getattr(chk, "only", None) in (None, "print"):
        chk.add_results("print_parse", pmap(case_printparse, cases, chunks=4))
    chk.bounds["print_parse"] = dict(note="representatives per sign class; structure enumerated")
    chk.outside = [
        "affine expressions with symbols, ceildiv, height > 3, more than 2 dims",
        "AffineTransform.from_affine_map with symbolic coefficients (numpy int arrays force concrete numbers)",
        "StridePattern upper bounds beyond the enumerated range",
        "print/parse for all integers (lexer cannot be executed symbolically)",
    ]
