"""C11 - allocations are big enough and never overlap while live."""

from __future__ import annotations

import itertools
import random

import numpy as np
import z3

from .. import irsym, sym, xshim
from ..harness import mval, replay_pinned, run_case
from ..irsym import Opaque
from ..runner import pmap
from ..sym import SymInt, eng
from .c10 import mk_tsl

LEVEL = "other"


class Declined(Exception):
    """the compiler refuses the input (assertion / NotImplementedError): not evidence for or against."""


# ------------------------------------------------------------------ A: allocation size (memref-to-snax)


def case_size(case):
    """bounds: per dim list (outermost may be None = dynamic); steps/offset symbolic holes; element width elw."""
    from xdsl.dialects import builtin, func, memref, test
    from xdsl.dialects.builtin import IndexType, IntegerType, MemRefType, ModuleOp, NoneAttr, StringAttr
    from xdsl.ir import Block, Region

    from snaxc.dialects import snax
    from snaxc.dialects.tsl import TiledStridedLayoutAttr
    from snaxc.transforms.memref_to_snax import MemrefToSNAX

    kind, bounds, elw = case[:3]
    dynsteps = case[3] if len(case) > 3 else None  # kind "tsl_dynstep": steps given, None = only known at run time
    el = elw // 8
    rank = len(bounds)

    def build(get):
        from xdsl.dialects.builtin import DYNAMIC_INDEX

        shape = []
        for bs in bounds:
            shape.append(DYNAMIC_INDEX if bs[0] is None else int(np.prod(bs)))
        dyn_ops = [test.TestOp(result_types=[IndexType()]) for s in shape if s == DYNAMIC_INDEX]
        if kind == "tsl_dynstep":
            steps, off = dynsteps, 0
            layout = TiledStridedLayoutAttr(mk_tsl(bounds, steps, 0))
        elif kind in ("tsl", "tsl_dynoff"):
            steps = [[get(f"s{d}_{k}") for k in range(len(bs))] for d, bs in enumerate(bounds)]
            # `offset: ?`: the offset is only known at run time; no compile-time size covers it, so the only right
            # answer is to refuse the allocation
            off = get("off") if kind == "tsl" else None
            layout = TiledStridedLayoutAttr(mk_tsl(bounds, steps, off))
        else:
            steps, off, layout = None, 0, NoneAttr()
        mt = MemRefType(IntegerType(elw), shape, layout, StringAttr("L1"))
        al = memref.AllocOp([d.res[0] for d in dyn_ops], [], mt, alignment=builtin.IntegerAttr(64, 64))
        use = test.TestOp(operands=[al.memref])
        m = ModuleOp([func.FuncOp("f", ((), ()), Region(Block([*dyn_ops, al, use, func.ReturnOp()])))])
        return m, dyn_ops, steps, off

    def run(m, dyn_ops, qvals):
        MemrefToSNAX().apply(xshim.make_ctx(), m)
        allocs = [o for o in m.walk() if isinstance(o, snax.Alloc)]
        I = irsym.Interp(intmode=True)
        sizes = {}

        def h_test(I, op):
            if op in dyn_ops:
                I.set(op.res[0], qvals[dyn_ops.index(op)])

        def h_alloc(I, op):
            sizes["size"] = I.get(op.size)
            sizes["shapes"] = [I.get(s) for s in op.shapes]
            I.set(op.result, Opaque("desc"))

        I.handlers.update({"test.op": h_test, "snax.alloc": h_alloc, "builtin.unrealized_conversion_cast": lambda I, op: I.set(op.results[0], Opaque("memref"))})
        I.run_func(irsym.module_funcs(m)[0], [])
        return allocs, sizes

    def fn():
        E = eng()
        if kind == "tsl_dynoff":
            # concrete steps: the refusal is reported with the printed op, which symbolic attribute values cannot survive
            cnt = itertools.count(1)
            m, dyn_ops, steps, off = build(lambda nm: 5 * next(cnt) + 1)
        else:
            m, dyn_ops, steps, off = build(lambda nm: sym.sym(nm, 0 if nm == "off" else 1, None))
        # run-time sizes: dynamic outermost bound q tiles
        qs, dimsize = [], []
        for d, bs in enumerate(bounds):
            inner = int(np.prod(bs[1:])) if len(bs) > 1 else 1
            if bs[0] is None:
                q = z3.Int(f"q{d}")
                E.assume(q >= 1)
                qs.append(q * inner)
                dimsize.append(q * inner)
            else:
                dimsize.append(z3.IntVal(int(np.prod(bs))))
        try:
            allocs, got = run(m, dyn_ops, qs)
        except (AssertionError, NotImplementedError) as e:
            if kind == "tsl_dynoff":
                raise Declined(f"compiler declines: {str(e)[:60]}")
            raise
        if kind == "tsl_dynoff":
            off = z3.Int("off_rt")
            E.assume(off >= 0)
        E.oblige("lowered:one_snax_alloc", z3.BoolVal(len(allocs) == 1 and "size" in got))
        if "size" not in got:
            return
        if kind == "tsl_dynstep":
            # steps only known at run time: whatever they turn out to be, distinct elements need distinct slots
            numel = z3.IntVal(1)
            for dsz in dimsize:
                numel = numel * dsz
            E.oblige("size:at_least_one_slot_per_element", got["size"] >= numel * el, dict(bounds=str(bounds), steps=str(dynsteps), width=elw))
            for d in range(rank):
                E.oblige("shape_operands:equal_run_time_shape", got["shapes"][d] == dimsize[d])
            return
        x = [z3.Int(f"x{d}") for d in range(rank)]
        for xi, n in zip(x, dimsize):
            E.assume(z3.And(xi >= 0, xi < n))
        if kind in ("tsl", "tsl_dynoff"):
            tot = off if z3.is_expr(off) else sym.zint(off)
            for d, bs in enumerate(bounds):
                for k in range(len(bs)):
                    inner = int(np.prod(bs[k + 1:])) if bs[k + 1:] else 1
                    dig = x[d] / inner
                    if k > 0:
                        dig = dig % bs[k]
                    tot = tot + dig * sym.zint(steps[d][k])
            addr = tot * el
        else:
            strides = []
            acc = z3.IntVal(1)
            for d in reversed(range(rank)):
                strides.insert(0, acc)
                acc = acc * dimsize[d]
            addr = sum((xi * s for xi, s in zip(x, strides)), z3.IntVal(0)) * el
        E.oblige("size:covers_highest_address_of_every_element", addr + el <= got["size"], dict(kind=kind, bounds=str(bounds), width=elw))
        for d in range(rank):
            E.oblige("shape_operands:equal_run_time_shape", got["shapes"][d] == dimsize[d])

    def replay(f):
        return replay_pinned(fn, f)

    def sig(f, v):
        return f["name"]

    return run_case(fn, replay, signature=sig, sample=dict(kind=kind, bounds=str(bounds), width=elw), key=str(case), max_paths=600, witness=False,
                    reject=(Declined,))


# ------------------------------------------------------------------ B: static bump allocation


def case_static(case):
    from xdsl.dialects import arith, func, llvm
    from xdsl.dialects.builtin import IndexType, IntegerAttr, ModuleOp, StringAttr, i64
    from xdsl.ir import Block, Region
    from xdsl.pattern_rewriter import PatternRewriteWalker

    from snaxc.dialects import snax
    from snaxc.transforms.snax_allocate import StaticAllocs
    from snaxc.util.snax_memory import SnaxMemory

    aligns = case

    def fn():
        E = eng()
        start, cap = sym.sym("start", 0, (1 << 31) - 1), sym.sym("cap", 0, (1 << 30))
        mem = SnaxMemory(StringAttr("M"), capacity=cap, start=start)
        ops, sizes = [], []
        for k, al in enumerate(aligns):
            sz = sym.sym(f"sz{k}", 0, 1 << 20)
            c = arith.ConstantOp(IntegerAttr(sz, IndexType()))
            a = snax.Alloc(1, c, [c], StringAttr("M"), IntegerAttr(al, i64))
            ops += [c, a]
            sizes.append(sz)
        ops.append(func.ReturnOp())
        m = ModuleOp([func.FuncOp("f", ((), ()), Region(Block(ops)))])
        sym.FORMAT_PLACEHOLDER = True  # the pass formats the size only in its "memory full" error message
        try:
            PatternRewriteWalker(StaticAllocs(lambda n: mem)).rewrite_module(m)
        finally:
            sym.FORMAT_PLACEHOLDER = False
        ptrs = [op.operands[0].owner.value.value.data for op in m.walk() if isinstance(op, llvm.IntToPtrOp)]
        E.oblige("static:one_pointer_per_alloc", z3.BoolVal(len(ptrs) == len(aligns)))
        if len(ptrs) != len(aligns):
            return
        P = [sym.zint(p) for p in ptrs]
        for k, al in enumerate(aligns):
            # the pointer constant is an i32: addresses are compared modulo 2^32 (start < 2^31 so no wrap here)
            p = z3.If(P[k] < 0, P[k] + (1 << 32), P[k])
            E.oblige("static:aligned", p % al == 0, dict(k=k, alignment=al))
            E.oblige("static:inside_memory_window", z3.And(p >= start.z, p + sizes[k].z <= start.z + cap.z), dict(k=k))
            for j in range(k):
                q = z3.If(P[j] < 0, P[j] + (1 << 32), P[j])
                E.oblige("static:disjoint", z3.Or(p + sizes[k].z <= q, q + sizes[j].z <= p, sizes[k].z == 0, sizes[j].z == 0), dict(a=j, b=k))

    def replay(f):
        return replay_pinned(fn, f)

    return run_case(fn, replay, signature=lambda f, v: f["name"], sample=dict(alignments=list(aligns)), key=str(case), max_paths=400, witness=True)


# ------------------------------------------------------------------ C: lifetimes handed to minimalloc

DESC2 = "!llvm.struct<(!llvm.ptr, !llvm.ptr, i32, !llvm.array<1 x i32>, !llvm.array<1 x i32>)>"


def life_src(prog, nbuf):
    """prog: list of statements:
         ('alloc', i) | ('use', i) | ('view', i) create a subview of buffer i | ('useview', i) |
         ('loop', [stmts]) | ('if', [stmts])"""
    L = []
    n = [0]
    vkinds = {}

    def emit(stmts, ind):
        P = "  " * ind
        for s in stmts:
            if s[0] == "alloc":
                i = s[1]
                space = s[3] if len(s) > 3 else "L1"
                L.append(P + f'%d{i} = "snax.alloc"(%sz{i}, %c16) <{{memory_space = "{space}", alignment = {s[2]} : i32}}> : (index, index) -> {DESC2}')
                L.append(P + f'%b{i} = "builtin.unrealized_conversion_cast"(%d{i}) : ({DESC2}) -> memref<16xi8>')
            elif s[0] == "use":
                L.append(P + f'"test.op"(%b{s[1]}) : (memref<16xi8>) -> ()')
            elif s[0] == "view":
                kind = s[2] if len(s) > 2 else "subview"
                vkinds[s[1]] = kind
                if kind == "subview":
                    L.append(P + f'%v{s[1]} = memref.subview %b{s[1]}[4] [8] [1] : memref<16xi8> to memref<8xi8, strided<[1], offset: 4>>')
                elif kind == "unranked":
                    L.append(P + f'%v{s[1]} = "memref.cast"(%b{s[1]}) : (memref<16xi8>) -> memref<*xi8>')
                else:  # back to the descriptor struct
                    L.append(P + f'%v{s[1]} = "builtin.unrealized_conversion_cast"(%b{s[1]}) : (memref<16xi8>) -> {DESC2}')
            elif s[0] == "useview":
                vt = {"subview": "memref<8xi8, strided<[1], offset: 4>>", "unranked": "memref<*xi8>", "struct": DESC2}[vkinds.get(s[1], "subview")]
                L.append(P + f'"test.op"(%v{s[1]}) : ({vt}) -> ()')
            elif s[0] == "carry":
                # the buffer is carried through a loop; the loop's result is the same memory
                n[0] += 1
                L.append(P + f"%r{s[1]} = scf.for %i{n[0]} = %c0 to %c16 step %c1 iter_args(%x{n[0]} = %b{s[1]}) -> (memref<16xi8>) {{")
                L.append(P + f'  "test.op"(%x{n[0]}) : (memref<16xi8>) -> ()')
                L.append(P + f"  scf.yield %x{n[0]} : memref<16xi8>")
                L.append(P + "}")
            elif s[0] == "pick":
                # one of two buffers, chosen at run time
                L.append(P + f"%r{s[1]} = scf.if %cond -> (memref<16xi8>) {{")
                L.append(P + f"  scf.yield %b{s[1]} : memref<16xi8>")
                L.append(P + "} else {")
                L.append(P + f"  scf.yield %b{s[2]} : memref<16xi8>")
                L.append(P + "}")
            elif s[0] == "usecarry":
                L.append(P + f'"test.op"(%r{s[1]}) : (memref<16xi8>) -> ()')
            elif s[0] == "loop":
                n[0] += 1
                L.append(P + f"scf.for %i{n[0]} = %c0 to %c16 step %c1 {{")
                emit(s[1], ind + 1)
                L.append(P + "}")
            elif s[0] == "if":
                L.append(P + "scf.if %cond {")
                emit(s[1], ind + 1)
                L.append(P + "}")

    emit(prog, 2)
    consts = "\n".join(f"    %sz{i} = arith.constant {7100 + i} : index" for i in range(nbuf))
    return f"""
builtin.module {{
  func.func public @f(%cond : i1) {{
    %c0 = arith.constant 0 : index
    %c1 = arith.constant 1 : index
    %c16 = arith.constant 16 : index
{consts}
{chr(10).join(L)}
    func.return
  }}
}}
"""


def gen_life_progs(rnd, n, nbuf_max=3):
    out = []
    seen = set()
    tries = 0
    while len(out) < n and tries < n * 50:
        tries += 1
        nb = rnd.randint(2, nbuf_max)
        allocated, viewed = [], set()
        prog = []

        def stmts(depth, budget):
            res = []
            for _ in range(budget):
                r = rnd.random()
                if depth == 0 and len(allocated) < nb and (r < 0.35 or not allocated):
                    i = len(allocated)
                    allocated.append(i)
                    res.append(("alloc", i, rnd.choice([1, 4, 8, 64]), rnd.choice(["L1", "L1", "L1", "L3"])))
                elif allocated and r < 0.6:
                    res.append(("use", rnd.choice(allocated)))
                elif allocated and r < 0.72 and depth == 0:
                    i = rnd.choice(allocated)
                    if i not in viewed:
                        viewed.add(i)
                        res.append(("view", i, rnd.choice(["subview", "subview", "unranked", "struct"])))
                elif viewed and r < 0.85:
                    res.append(("useview", rnd.choice(sorted(viewed))))
                elif allocated and depth < 2 and r < 0.95:
                    res.append((rnd.choice(["loop", "loop", "if"]), stmts(depth + 1, rnd.randint(1, 2))))
            return res

        prog = stmts(0, rnd.randint(5, 9))
        key = str(prog)
        if len(allocated) >= 2 and key not in seen:
            seen.add(key)
            out.append((prog, len(allocated)))
    return out


def true_lifetimes(func_op, alloc_ops):
    """ground truth from the IR: a buffer is live from its alloc to the last TOP-LEVEL op that uses it or anything derived
    from it (casts, subviews, views - transitively), uses nested in regions count for the enclosing top-level op."""
    block = func_op.body.blocks[0]
    top = list(block.ops)
    pos = {op: i for i, op in enumerate(top)}

    def top_of(op):
        while op.parent_op() is not func_op:
            op = op.parent_op()
        return op

    out = []
    for a in alloc_ops:
        first = pos[top_of(a)]
        last = first
        work = [a.results[0]]
        seen = set()
        while work:
            v = work.pop()
            if v in seen:
                continue
            seen.add(v)
            for u in v.uses:
                o = u.operation
                if o.name == "memref.dealloc":
                    continue
                last = max(last, pos[top_of(o)])
                if o.name in ("builtin.unrealized_conversion_cast", "memref.subview", "memref.cast", "memref.reinterpret_cast", "memref.view",
                              "memref.expand_shape", "memref.collapse_shape", "snax.layout_cast", "memref.memory_space_cast"):
                    work.extend(o.results)
                # a loop hands its iteration arguments to its body, and what the body yields to its results
                if o.name == "scf.for" and u.index >= 3:
                    work.append(o.regions[0].blocks[0].args[u.index - 2])
                if o.name == "scf.yield" and o.parent_op().name in ("scf.for", "scf.if"):
                    work.append(o.parent_op().results[u.index])
        out.append((first, last))
    return out


def case_lifetime(case):
    import minimalloc
    from xdsl.dialects import arith, llvm
    from xdsl.dialects.builtin import IndexType, IntegerAttr
    from xdsl.parser import Parser

    from snaxc.dialects import snax
    from snaxc.transforms.snax_allocate import SnaxAllocatePass

    prog, nbuf, mode = case
    src = life_src(prog, nbuf)

    def fn():
        E = eng()
        main = xshim.make_main()
        m = Parser(main.ctx, src).parse_module()
        f = irsym.module_funcs(m)[0]
        # plant symbolic sizes
        sizes = {}
        for op in m.walk():
            if isinstance(op, arith.ConstantOp) and isinstance(op.value, IntegerAttr) and isinstance(op.result.type, IndexType):
                v = op.value.value.data
                if isinstance(v, int) and not isinstance(v, SymInt) and 7100 <= v < 7200:
                    s = sym.sym(f"size{v - 7100}", 1, 4096)
                    sizes[v - 7100] = s
                    op.properties["value"] = IntegerAttr(s, IndexType())
        allocs = [o for o in f.body.blocks[0].ops if isinstance(o, snax.Alloc)]
        order = [int(a.size.op.result.name_hint[2:]) if a.size.op.result.name_hint else k for k, a in enumerate(allocs)]
        truth = true_lifetimes(f, allocs)
        top_before = list(f.body.blocks[0].ops)
        last_use_ops = [top_before[t[1]] for t in truth]
        del minimalloc.LOG[:]
        SnaxAllocatePass(mode=mode).apply(main.ctx, m)
        ptr_consts = [op.operands[0].owner.value.value.data for op in m.walk() if isinstance(op, llvm.IntToPtrOp)]
        E.oblige("alloc:one_pointer_per_buffer", z3.BoolVal(len(ptr_consts) == len(allocs)), dict(pointers=len(ptr_consts), allocs=len(allocs)))
        if len(ptr_consts) != len(allocs):
            return
        WIN = {"L1": (0x10000000, 65536), "L3": (0x80000000, int(1e9))}
        space_of = [a.memory_space.data for a in allocs]
        P = [sym.zint(p) % (1 << 32) for p in ptr_consts]  # i32 constants: addresses above 2^31 are stored as negative numbers
        S = [sizes[order[k]].z for k in range(len(allocs))]
        for k in range(len(allocs)):
            al = allocs[k].alignment.value.data if allocs[k].alignment is not None else 1
            E.oblige("alloc:aligned", P[k] % al == 0 if al else z3.BoolVal(True), dict(buffer=k))
            start, cap = WIN[space_of[k]]
            E.oblige("alloc:inside_memory_window", z3.And(P[k] >= start, P[k] + S[k] <= start + cap), dict(buffer=k, space=space_of[k]))
            for j in range(k):
                a0, a1 = truth[k]
                b0, b1 = truth[j]
                if a0 <= b1 and b0 <= a1:
                    E.oblige("alloc:buffers_live_together_are_disjoint", z3.Or(P[k] + S[k] <= P[j], P[j] + S[j] <= P[k]),
                             dict(a=j, b=k, true_lifetimes=(truth[j], truth[k]),
                                  passed_to_solver=[(b[1], b[2]) for b in (minimalloc.LOG[0][0] if minimalloc.LOG else [])]))
        # deallocs must not precede a later use of the buffer or of a view of it
        top_after = list(irsym.module_funcs(m)[0].body.blocks[0].ops)
        posa = {op: i for i, op in enumerate(top_after)}
        for op in top_after:
            if op.name == "memref.dealloc":
                src_v = op.operands[0]
                # which buffer? follow the cast back to its struct -> alloc index by pointer order
                users_after = []
                work, seen = [src_v], set()
                while work:
                    v = work.pop()
                    if v in seen:
                        continue
                    seen.add(v)
                    for u in v.uses:
                        o = u.operation
                        t = o
                        while t.parent_op() is not irsym.module_funcs(m)[0]:
                            t = t.parent_op()
                        if o is not op and posa[t] > posa[op]:
                            users_after.append(o.name)
                        if o.name in ("memref.subview", "memref.cast", "builtin.unrealized_conversion_cast"):
                            work.extend(o.results)
                E.oblige("dealloc:after_last_use_of_buffer_and_its_views", z3.BoolVal(not users_after), dict(used_after=users_after[:4]))

    def replay(f):
        ok, d = replay_pinned(fn, f)
        d["program"] = src
        return ok, d

    def sig(f, v):
        tags = []
        flat = str(prog)
        if "useview" in flat:
            tags.append("buffer_used_through_subview")
        if "'loop', [('loop'" in flat or "'if', [('loop'" in flat or "'loop', [('if'" in flat:
            tags.append("use_nested_two_deep")
        return f["name"] + ("|" + "+".join(tags) if tags else "")

    return run_case(fn, replay, signature=sig, sample=dict(program=str(prog)[:300], mode=mode), key=str(case), max_paths=200)


def run(chk):
    quick = chk.tier == "quick"
    only = getattr(chk, "only", None)
    rnd = random.Random(chk.seed)
    chk.functions = ["snaxc.transforms.memref_to_snax.AllocOpRewrite (size computation)", "snaxc.transforms.snax_allocate.StaticAllocs/MiniMallocate/create_memref_struct/SnaxAllocatePass(auto)",
                     "snaxc.dialects.tsl.get_bound_ops/get_step_ops (in_bytes)", "minimalloc.Problem.solve: contract stub (vfy/stubs/minimalloc)"]
    chk.explanation = (
        "(A) memref-to-snax on allocs with none / tiled-strided layouts whose static steps and offset are symbolic holes and whose "
        "dynamic outermost bounds are symbolic run-time sizes: the emitted size computation is evaluated by the IR interpreter and z3 "
        "proves that for every logical index the last byte of the element lies below the allocated size. (B) The real StaticAllocs "
        "pattern runs on allocs with symbolic sizes and a memory description with symbolic start/capacity; z3 proves alignment, window "
        "and pairwise disjointness of the emitted pointers. (C) minimalloc/auto mode: the absent solver is replaced by a stub returning "
        "fresh symbolic offsets constrained only by minimalloc's contract; the harness computes the TRUE live range of every buffer from "
        "the IR (uses through casts and subviews, uses nested in loops/ifs) and z3 asks whether contract-satisfying offsets exist that "
        "make two truly-live-together buffers overlap; inserted deallocs must follow the last use of the buffer and its views.")
    chk.assumptions = ["minimalloc's own correctness is assumed (contract stub); dynamic mode (C runtime allocator) out of scope",
                       "TSL steps >= 1, offset >= 0; dynamic sizes multiples of the inner tile product", "L1 window 0x10000000 + 65536"]
    cases = []
    bsets = [[[4]], [[2, 4]], [[4], [8]], [[2, 2], [2, 4]], [[None]], [[None, 4]], [[None, 2], [2, 4]], [[None], [None]], [[3, 2, 2]], [[None, 2, 2], [4]]]
    for b in bsets:
        for elw in (8, 32) if quick else (8, 16, 32, 64):
            cases.append(("tsl", b, elw))
            if elw == 8 or not quick:
                cases.append(("tsl_dynoff", b, elw))
            cases.append(("none", [[x[0]] if x[0] is None else [int(np.prod(x))] for x in b], elw))
    # steps only known at run time (row-major / tiled with a dynamic inner extent), static bounds next to them
    for elw in (8, 32):
        cases.append(("tsl_dynstep", [[4], [None, 4]], elw, [[None], [None, 1]]))
        cases.append(("tsl_dynstep", [[2, 4], [None, 4]], elw, [[None, 4], [None, 1]]))
        cases.append(("tsl_dynstep", [[2, 4], [None, 4]], elw, [[16, 4], [None, 32]]))
        cases.append(("tsl_dynstep", [[None, 2], [None, 4]], elw, [[None, 4], [None, 1]]))
        cases.append(("tsl_dynstep", [[3], [5], [None]], elw, [[None], [None], [1]]))
        # a one-tile-wide dimension whose outer step equals the row pitch of the dynamic one (a tie between two largest static steps)
        cases.append(("tsl_dynstep", [[None, 4], [1, 32]], elw, [[None, 32], [32, 1]]))
        cases.append(("tsl_dynstep", [[1, 32], [None, 4]], elw, [[32, 1], [None, 32]]))
        cases.append(("tsl_dynstep", [[None]], elw, [[None]]))
    if only in (None, "size"):
        chk.add_results("allocation_size", pmap(case_size, cases, chunks=2))
    acases = [c for k in (1, 2, 3) for c in itertools.product((1, 4, 64), repeat=k)] + [(8, 2, 64, 4)]
    if only in (None, "static"):
        chk.add_results("static_bump_allocation", pmap(case_static, acases, chunks=2))
    progs = gen_life_progs(rnd, 150 if quick else 1200)
    lcases = [(p, n, "minimalloc") for p, n in progs] + [(p, n, "auto") for p, n in progs[:: 3]]
    # a buffer carried through a loop (iter_args) and used through the loop's result, while other buffers come and go
    A_ = lambda i, al=8: ("alloc", i, al, "L1")
    for al in (1, 64):
        lcases += [([A_(0, al), ("use", 0), ("carry", 0), A_(1, al), ("use", 1), ("usecarry", 0)], 2, "minimalloc"),
                   ([A_(0, al), ("carry", 0), A_(1, al), ("use", 1), A_(2, al), ("use", 2), ("loop", [("usecarry", 0)])], 3, "minimalloc"),
                   ([A_(0, al), A_(1, al), ("carry", 1), ("use", 0), ("use", 1)], 2, "auto"),
                   ([A_(0, al), A_(1, al), ("pick", 0, 1), A_(2, al), ("use", 2), ("usecarry", 0)], 3, "minimalloc"),
                   ([A_(0, al), ("carry", 0), ("usecarry", 0), A_(1, al), ("use", 1)], 2, "minimalloc")]
    if only in (None, "life"):
        chk.add_results("lifetimes_handed_to_minimalloc", pmap(case_lifetime, lcases, chunks=4))
    chk.bounds = dict(size_cases=len(cases), static_cases=len(acases), lifetime_programs=len(lcases), buffers="2..3", nesting="<=2")
    chk.outside = ["the real minimalloc solver", "dynamic allocation mode", "allocs not at function top level (the pass requires top level)"]
