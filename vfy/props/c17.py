"""C17 - loop restructuring preserves the executed operation sequence."""

from __future__ import annotations

import itertools
import random

import z3

from .. import irsym, sym, xshim
from ..harness import replay_pinned, run_case
from ..irsym import Opaque
from ..runner import pmap
from ..sym import SymInt, eng

LEVEL = "translation_validation"
HOLE = 7000  # constants 7000+k in the program text are replaced by symbolic holes ub_k


# ------------------------------------------------------------------ part A: pipeline-canonicalize-for


def nest_src(loops, body_ops):
    """loops: list of (lb, ub, step) descriptors, outermost first:
         lb: 0 | 'n' (dynamic arg) | int ; ub: ('hole',k) | 'm' (dynamic) | int ; step: int | 's' (dynamic)
       body_ops: per depth d a pair (pre, post): whether an effectful op sits before / after the inner loop
                 (innermost: pre only = the body)."""
    lines = []
    consts = {}

    def const(v):
        if v not in consts:
            consts[v] = f"%c{len(consts)}"
        return consts[v]

    def val(x):
        if x == "n":
            return "%n"
        if x == "m":
            return "%m"
        if x == "s":
            return "%s"
        if isinstance(x, tuple):
            return const(HOLE + x[1])
        return const(x)

    ivs = []
    body = []
    ind = 2

    def emit_op(tag):
        ops = ", ".join(ivs)
        tys = ", ".join("index" for _ in ivs)
        body.append("  " * ind + f'"test.op"({ops}) {{tag = "{tag}"}} : ({tys}) -> ()')

    for d, (lb, ub, st) in enumerate(loops):
        iv = f"%i{d}"
        body.append("  " * ind + f"scf.for {iv} = {val(lb)} to {val(ub)} step {val(st)} {{")
        ivs.append(iv)
        ind += 1
        pre, post = body_ops[d]
        if pre:
            emit_op(f"pre{d}")
    for d in reversed(range(len(loops))):
        pre, post = body_ops[d]
        if post and d != len(loops) - 1:
            emit_op(f"post{d}")
        ivs.pop()
        ind -= 1
        body.append("  " * ind + "}")
    cl = "\n".join(f"    {n} = arith.constant {v} : index" for v, n in consts.items())
    return f"""builtin.module {{
  func.func @f(%n : index, %m : index, %s : index) {{
{cl}
{chr(10).join(body)}
    func.return
  }}
}}
"""


def plant_holes(module, get):
    """replace arith.constant 7000+k : index by a constant whose value is get(k) (a symbolic hole)."""
    from xdsl.dialects import arith
    from xdsl.dialects.builtin import IndexType, IntegerAttr

    holes = []
    for op in module.walk():
        if isinstance(op, arith.ConstantOp) and isinstance(op.value, IntegerAttr) and isinstance(op.result.type, IndexType):
            v = op.value.value.data
            if isinstance(v, int) and not isinstance(v, SymInt) and v >= HOLE and v < HOLE + 100:
                k = v - HOLE
                op.properties["value"] = IntegerAttr(get(k), IndexType())
                holes.append(k)
    return holes


def trace_handlers():
    def h_test(I, op):
        tag = op.attributes.get("tag")
        vals = []
        for o in op.operands:
            v = I.get(o)
            vals.append((tuple(v.sizes), tuple(getattr(v, "offsets", ()))) if isinstance(v, Opaque) and hasattr(v, "sizes") else v)
        I.emit("op", str(tag), tuple(vals))
        for i, r in enumerate(op.results):
            I.set(r, I.fresh_for(("test", str(tag), i), r.type))

    return {"test.op": h_test}


def run_nest(module, K, args, emitted=False):
    I = irsym.Interp(K=K, intmode=True, shared={})
    I.handlers.update(trace_handlers())
    I.handlers.update(MEMREF_HANDLERS)
    if emitted:
        # index arithmetic the pass emitted: an unsigned division that is reached with a divisor <= 0 (or a negative
        # dividend) is wrong by itself - it is reported, not assumed away
        def strict(f):
            def h(I, op):
                a, b = I.vals(op)
                a, b = (v if z3.is_expr(v) else sym.zint(v) for v in (a, b))
                # (obligations are discharged against the final path condition: fork instead of assuming afterwards)
                if eng().branch(z3.And(a >= 0, b > 0)):
                    I.set(op.results[0], f(a, b))
                else:
                    eng().oblige("emitted:unsigned_division_reached_with_operands_in_range", False, dict(op=op.name))
                    I.set(op.results[0], z3.FreshInt("undefined_division"))
            return h
        I.handlers["arith.divui"] = strict(lambda a, b: a / b)
        I.handlers["arith.remui"] = strict(lambda a, b: a % b)
    f = irsym.module_funcs(module)[0]
    I.run_func(f, args)
    return I


def case_nest(case, K=6):
    from xdsl.parser import Parser

    from snaxc.transforms.pipeline.pipeline_canonicalize_for import PipelineCanonicalizeFor

    loops, body_ops = case
    src = nest_src(loops, body_ops)
    hole_ranges = {}
    for (lb, ub, st) in loops:
        if isinstance(ub, tuple):
            s = st if isinstance(st, int) else 2
            # negative upper bounds included: a loop "0 to -3" runs zero times like "0 to 0"
            hole_ranges[ub[1]] = (-3, 2 * s + (s - 1)) if len(loops) > 1 else (-3, 3 * s + (s - 1))

    def apply_pass(ctx, m, without=()):
        from xdsl.pattern_rewriter import GreedyRewritePatternApplier, PatternRewriteWalker

        from snaxc.transforms.pipeline import pipeline_canonicalize_for as P

        if not without:
            PipelineCanonicalizeFor().apply(ctx, m)
            return
        pats = [getattr(P, n)() for n in ("ChangeForStep", "MergeForLoops") if n not in without]
        PatternRewriteWalker(GreedyRewritePatternApplier(pats)).rewrite_module(m)

    def make_fn(without=()):
        def fn():
            ctx = xshim.make_ctx()
            m1 = Parser(ctx, src).parse_module()

            def get(k):
                lo, hi = hole_ranges[k]
                return sym.sym(f"ub{k}", lo, hi)

            plant_holes(m1, get)
            m2 = m1.clone()
            apply_pass(ctx, m2, without)
            n, m, s = z3.Int("n"), z3.Int("m"), z3.Int("s")
            E = eng()
            E.assume(z3.And(n >= 0, n <= 4, m >= 0, m <= 5, s >= 1, s <= 3))
            I1 = run_nest(m1, K * 4, [n, m, s])
            try:
                I2 = run_nest(m2, K * 4, [n, m, s], emitted=True)
            except irsym.Undefined as e:
                E.oblige("ssa:use_before_def", False, dict(error=str(e)[:200]))
                return
            irsym.compare_traces(I1.events, I2.events, E.oblige, "trace")
            E.oblige("explored", True)
            E.notes.append(f"trips={I1.loop_trips}")
        return fn

    fn = make_fn()

    def replay(f):
        ok, d = replay_pinned(fn, f)
        if ok:
            cul = []
            for p in ("ChangeForStep", "MergeForLoops"):
                try:
                    ok2, _ = replay_pinned(make_fn((p,)), f)
                except Exception:
                    ok2 = True
                if not ok2:
                    cul.append(p)
            d["culprit_patterns"] = cul
        d["program"] = src
        d["loops"] = str(loops)
        return ok, d

    def sig(f, v):
        d = v.get("detail") or {}
        cp = d.get("culprit_patterns", []) if isinstance(d, dict) else []
        # a failure that needs MergeForLoops to manifest is attributed to it (ChangeForStep only enables the merge)
        cul = "MergeForLoops" if "MergeForLoops" in cp else "+".join(cp)
        imperfect = len(loops) > 1 and any(pre or post for (pre, post) in body_ops[:-1])
        return f"canonicalize_for:{f['name'].split(':')[0]}|site={cul or 'none-single'}|" + ("imperfect_nest" if imperfect else "perfect_nest")

    return run_case(fn, replay, signature=sig, sample=dict(loops=str(loops), body_ops=str(body_ops)), key=str(case),
                    max_paths=400, witness=False)


# ------------------------------------------------------------------ part B: reuse-memref-allocs


def _sizes_of(I, op_sizes_static, dyn_vals):
    from xdsl.dialects.builtin import DYNAMIC_INDEX

    out = []
    it = iter(dyn_vals)
    for s in op_sizes_static:
        out.append(next(it) if s == DYNAMIC_INDEX else z3.IntVal(s))
    return out


def _h_alloc(I, op):
    shape = op.memref.type.get_shape()
    dyn = [I.get(o) for o in op.dynamic_sizes]
    it = iter(dyn)
    from xdsl.dialects.builtin import DYNAMIC_INDEX

    sizes = [next(it) if s in (-1, DYNAMIC_INDEX) else z3.IntVal(s) for s in shape]
    I.set(op.memref, Opaque("memref", sizes=sizes, offsets=()))


def _h_dim(I, op):
    src = I.get(op.source)
    idx = z3.simplify(I.get(op.index))
    assert z3.is_int_value(idx)
    I.set(op.result, src.sizes[idx.as_long()])


def _h_subview(I, op):
    static = op.static_sizes.get_values()
    dyn = [I.get(o) for o in op.sizes]
    I.get(op.source)
    offs = [I.get(o) for o in op.offsets]
    sizes = list(_sizes_of(I, static, dyn))
    # a rank-reducing view drops unit dimensions of its source (MLIR: the dropped dimensions have static size 1)
    drop = len(sizes) - len(op.result.type.get_shape())
    kept = []
    for sz, st_ in zip(sizes, static):
        if drop > 0 and st_ == 1:
            drop -= 1
            continue
        kept.append(sz)
    sizes = kept
    # pure op: not an event; its sizes/offsets are observable through the users of the view
    I.set(op.result, Opaque("memref", sizes=sizes, offsets=tuple(offs)))


def _h_affine_min(I, op):
    vals = [SymInt(I.get(o)) for o in op.operands]
    nd = op.map.data.num_dims
    res = op.map.data.eval(vals[:nd], vals[nd:])
    r = sym.zint(res[0])
    for x in res[1:]:
        xz = sym.zint(x)
        r = z3.If(xz < r, xz, r)
    I.set(op.result, r)


def _h_affine_apply(I, op):
    vals = [SymInt(I.get(o)) for o in op.operands]
    nd = op.map.data.num_dims
    res = op.map.data.eval(vals[:nd], vals[nd:])
    I.set(op.result, sym.zint(res[0]))


MEMREF_HANDLERS = {"memref.alloc": _h_alloc, "memref.dim": _h_dim, "memref.subview": _h_subview,
                   "affine.min": _h_affine_min, "affine.apply": _h_affine_apply}


RANK_REDUCING = """builtin.module {{
  func.func @f(%A : memref<?x?x?xi32>) {{
    %c0 = arith.constant 0 : index
    %c1 = arith.constant 1 : index
    %c2 = arith.constant 2 : index
    %c4 = arith.constant 4 : index
    %c8 = arith.constant 8 : index
    scf.for %i0 = %c0 to %c8 step %c4 {{
      %s1 = memref.dim %A, %c1 : memref<?x?x?xi32>
      %s2 = memref.dim %A, %c2 : memref<?x?x?xi32>
      %sv = memref.subview %A[%i0, 0, 0] [1, %s1, %s2] [1, 1, 1] : memref<?x?x?xi32> to memref<?x?xi32, strided<[?, ?], offset: ?>>
      %ci = arith.constant {dimidx} : index
      %d = memref.dim %sv, %ci : memref<?x?xi32, strided<[?, ?], offset: ?>>
      %buf = memref.alloc(%d) : memref<?xi32>
      "test.op"(%buf, %i0) {{tag = "use"}} : (memref<?xi32>, index) -> ()
    }}
    func.return
  }}
}}
"""


def alloc_src(case):
    """programs: (nested) loops with alloc / dim / subview whose sizes depend or not on loop variables."""
    kind, depth, rank, dynmask, dimidx, size_src = case
    if kind == "rank_reducing":
        # a view that drops the unit dimension of its source: its dimension k is the source's dimension k + 1
        return RANK_REDUCING.format(dimidx=dimidx)
    # source memref argument %A : memref<?x?x..xi32> ; subview sizes: static 4 or dynamic from size_src
    ranks = "x".join("?" for _ in range(rank))
    idxs = [f"%i{d}" for d in range(depth)]
    L = []
    ind = 2
    for d in range(depth):
        L.append("  " * ind + f"scf.for %i{d} = %c0 to %c8 step %c4 {{")
        ind += 1
    P = "  " * ind
    dyn_sizes = []
    for r in range(rank):
        if dynmask[r]:
            if size_src == "const":
                L.append(P + f"%sz{r} = arith.constant {3 + r} : index")
            elif size_src == "min":
                L.append(P + f"%sz{r} = affine.min affine_map<(d0) -> ({4 + r}, -d0 + {5 + r})>(%i{depth - 1})")
            elif size_src == "dim":
                L.append(P + f"%cd{r} = arith.constant {r} : index")
                L.append(P + f"%sz{r} = memref.dim %A, %cd{r} : memref<{ranks}xi32>")
            elif size_src == "dimx":
                # the r-th size of the view is ANOTHER dimension of the argument, and that dim has a further user
                L.append(P + f"%cd{r} = arith.constant {(r + 1) % rank} : index")
                L.append(P + f"%sz{r} = memref.dim %A, %cd{r} : memref<{ranks}xi32>")
                L.append(P + f'"test.op"(%sz{r}) {{tag = "dimuse{r}"}} : (index) -> ()')
            elif size_src == "iv":
                L.append(P + f"%sz{r} = arith.addi %i{depth - 1}, %c1 : index")
            dyn_sizes.append(f"%sz{r}")
    offs = ", ".join([f"%i{depth - 1}"] + ["0"] * (rank - 1))
    sizes = ", ".join(f"%sz{r}" if dynmask[r] else "4" for r in range(rank))
    strides = ", ".join("1" for _ in range(rank))
    res_shape = "x".join("?" if dynmask[r] else "4" for r in range(rank))
    res_strides = ", ".join("?" for _ in range(rank))
    res_t = f"memref<{res_shape}xi32, strided<[{res_strides}], offset: ?>>"
    L.append(P + f"%sv = memref.subview %A[{offs}] [{sizes}] [{strides}] : memref<{ranks}xi32> to {res_t}")
    L.append(P + f"%ci = arith.constant {dimidx} : index")
    L.append(P + f"%d = memref.dim %sv, %ci : {res_t}")
    if kind == "alloc_of_dim":
        L.append(P + "%buf = memref.alloc(%d) : memref<?xi32>")
        L.append(P + f'"test.op"(%buf, {idxs[-1]}) {{tag = "use"}} : (memref<?xi32>, index) -> ()')
    elif kind == "alloc_and_use_of_dim":
        # the dim sizes an allocation AND is used by something else: it has to keep its run-time value
        L.append(P + "%buf = memref.alloc(%d) : memref<?xi32>")
        L.append(P + f'"test.op"(%buf, %d, {idxs[-1]}) {{tag = "use"}} : (memref<?xi32>, index, index) -> ()')
    elif kind == "alloc_static":
        L.append(P + "%buf = memref.alloc() : memref<16xi32>")
        L.append(P + f'"test.op"(%buf, %d, {idxs[-1]}) {{tag = "use"}} : (memref<16xi32>, index, index) -> ()')
    elif kind == "subview_of_dim":
        L.append(P + "%buf = memref.alloc(%d) : memref<?xi32>")
        L.append(P + "%sv2 = memref.subview %buf[0] [%d] [1] : memref<?xi32> to memref<?xi32, strided<[1]>>")
        L.append(P + f'"test.op"(%sv2, {idxs[-1]}) {{tag = "use"}} : (memref<?xi32, strided<[1]>>, index) -> ()')
    for d in range(depth):
        ind -= 1
        L.append("  " * ind + "}")
    body = "\n".join(L)
    return f"""builtin.module {{
  func.func @f(%A : memref<{ranks}xi32>) {{
    %c0 = arith.constant 0 : index
    %c1 = arith.constant 1 : index
    %c4 = arith.constant 4 : index
    %c8 = arith.constant 8 : index
{body}
    func.return
  }}
}}
"""


def case_alloc(case):
    from xdsl.parser import Parser

    from snaxc.transforms.reuse_memref_allocs import ReuseMemrefAllocs

    src = alloc_src(case)
    rank = case[2]

    def fn():
        ctx = xshim.make_ctx()
        m1 = Parser(ctx, src).parse_module()
        m2 = m1.clone()
        ReuseMemrefAllocs().apply(ctx, m2)
        E = eng()
        sizes = [z3.Int(f"A{r}") for r in range(rank)]
        for s in sizes:
            E.assume(z3.And(s >= 8, s <= 64))
        A = Opaque("memref", sizes=sizes)
        I1 = run_nest(m1, 4, [A])
        try:
            I2 = run_nest(m2, 4, [A])
        except irsym.Undefined as e:
            E.oblige("ssa:use_before_def", False, dict(error=str(e)[:200]))
            return
        irsym.compare_traces(I1.events, I2.events, E.oblige, "trace")
        E.oblige("explored", True)

    def replay(f):
        ok, d = replay_pinned(fn, f)
        d["program"] = src
        return ok, d

    def sig(f, v):
        return f"reuse_memref_allocs:{f['name'].split(':')[0]}|size_from_{case[5]}" + ("|dim_also_used_elsewhere" if case[0] == "alloc_and_use_of_dim" else "|rank_reducing_view" if case[0] == "rank_reducing" else "")

    return run_case(fn, replay, signature=sig, sample=dict(case=str(case)), key=str(case), max_paths=200)


# ------------------------------------------------------------------ driver


def run(chk):
    quick = chk.tier == "quick"
    only = getattr(chk, "only", None)
    rnd = random.Random(chk.seed)
    chk.functions = ["snaxc.transforms.pipeline.pipeline_canonicalize_for.ChangeForStep/MergeForLoops",
                     "snaxc.transforms.reuse_memref_allocs.LoopHoistPureOperations/MoveMemrefDims"]
    chk.explanation = (
        "Translation validation: generated loop nests (depth <= 3; constant upper bounds are symbolic holes planted "
        "into arith.constant, steps from {1,2,3,4,5,7}, dynamic bounds from symbolic arguments; effectful test ops "
        "before/after/inside inner loops) go through the real pipeline-canonicalize-for; programs with allocs, "
        "memref.dim, subviews and affine.min sizes in loops go through the real reuse-memref-allocs. Before and after "
        "are executed by the symbolic IR interpreter (mathematical-int index arithmetic) and z3 proves that the trace "
        "of effectful ops with their evaluated index/size operands is identical on every path (all trip counts "
        "within the hole ranges). Allocation events are compared through the sizes of the buffers that reach "
        "users, not by count.")
    chk.assumptions = ["hole ranges: ub in [-3, 3*step+step-1] (single loop) / [-3, 2*step+step-1] (nests): every trip count 0..3 / 0..2 incl. non-multiples",
                       "dynamic bounds n in 0..4, m in 0..5, s in 1..3; source memref sizes 8..64",
                       "index arithmetic without overflow (int mode)"]
    # part A
    cases = []
    steps = (1, 2, 3, 4, 5, 7) if not quick else (1, 2, 3, 5)
    for st in steps:
        cases.append(([(0, ("hole", 0), st)], [(True, False)]))
        cases.append(([("n", ("hole", 0), st)], [(True, False)]))
        cases.append(([(0, "m", st)], [(True, False)]))
        cases.append(([(2, ("hole", 0), st)], [(True, False)]))
    cases.append(([(0, ("hole", 0), "s")], [(True, False)]))
    # depth 2
    for st0, st1 in itertools.product((1, 2, 3) if quick else (1, 2, 3, 4), repeat=2):
        for pre, post in itertools.product((False, True), repeat=2):
            cases.append(([(0, ("hole", 0), st0), (0, ("hole", 1), st1)], [(pre, post), (True, False)]))
    for lb0, lb1 in (("n", 0), (0, "n"), (0, 2)):
        cases.append(([(lb0, ("hole", 0), 1), (lb1, ("hole", 1), 2)], [(False, False), (True, False)]))
    cases.append(([(0, "m", 1), (0, ("hole", 1), 1)], [(False, False), (True, False)]))
    # literal negative upper bounds (zero trips), in one or both loops of a nest
    for u0, u1 in ((-2, -3), (-1, -1), (-2, 2), (2, -1), (-1, 0)):
        cases.append(([(0, u0, 1), (0, u1, 1)], [(False, False), (True, False)]))
    # depth 3
    for sts in ((1, 1, 1), (2, 1, 1), (1, 2, 1), (1, 1, 3), (2, 2, 2)):
        for b in ((False, False), (True, False), (False, True)):
            cases.append(([(0, ("hole", 0), sts[0]), (0, ("hole", 1), sts[1]), (0, ("hole", 2), sts[2])],
                          [b, (False, False), (True, False)]))
            if not quick:
                cases.append(([(0, ("hole", 0), sts[0]), (0, ("hole", 1), sts[1]), (0, ("hole", 2), sts[2])],
                              [(False, False), b, (True, False)]))
    if only in (None, "for"):
        chk.add_results("pipeline_canonicalize_for", pmap(case_nest, cases))
    # part B
    cases = []
    for kind in ("alloc_of_dim", "alloc_static", "subview_of_dim"):
        for depth in (1, 2):
            for rank in (1, 2, 3) + (() if quick else (4,)):
                for dynmask in itertools.product((True, False), repeat=rank):
                    for dimidx in range(rank):
                        for size_src in ("const", "min", "dim", "iv", "dimx"):
                            if not any(dynmask) and size_src != "const":
                                continue
                            if size_src == "dimx" and rank < 2:
                                continue
                            cases.append((kind, depth, rank, dynmask, dimidx, size_src))
    if quick and len(cases) > 260:
        cases = rnd.sample(cases, 260)
    for dimidx in (0, 1):
        cases.append(("rank_reducing", 1, 3, (False, True, True), dimidx, "dim"))
    # a dim that sizes an allocation and has another user as well (fixed, whatever the seed)
    for depth in (1, 2):
        for rank, dynmask in ((1, (True,)), (2, (True, False)), (2, (True, True))):
            for size_src in ("min", "iv", "dim"):
                cases.append(("alloc_and_use_of_dim", depth, rank, dynmask, 0, size_src))
    if only in (None, "alloc"):
        chk.add_results("reuse_memref_allocs", pmap(case_alloc, cases, chunks=2))
    chk.bounds = dict(nest_depth="<=3", steps=list(steps), subview_rank="1..3 quick / 1..4 thorough", loop_depth_allocs="1..2")
    chk.outside = ["loops with iter_args", "trip counts above the hole ranges", "alloc hoisting is compared by buffer sizes reaching users, not allocation count"]
