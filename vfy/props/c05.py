"""C05 - DMA lowering of a copy moves every element to its layout position."""

from __future__ import annotations

import itertools
import random

import numpy as np
import z3

from .. import irsym, sym, xshim
from ..harness import mval, replay_pinned, run_case
from ..irsym import Opaque
from ..runner import pmap
from ..sym import eng
from .c10 import Lambda

LEVEL = "translation_validation"
NMAX = 3  # dynamic sizes 1..NMAX (in units of the inner tile product)


# ------------------------------------------------------------------ layouts: text + reference semantics


def layout_text(desc, shape):
    """desc: ('id',) | ('strided', strides, offset) | ('tsl', bounds, steps, offset)  (None entries = dynamic '?')"""
    q = lambda v: "?" if v is None else str(v)
    if desc[0] == "id":
        return ""
    if desc[0] == "strided":
        return f", strided<[{', '.join(q(s) for s in desc[1])}], offset: {q(desc[2])}>"
    ts = ", ".join(f"[{', '.join(q(b) for b in bs)}] -> ({', '.join(q(s) for s in ss)})" for bs, ss in zip(desc[1], desc[2]))
    return f", #tsl.tsl<{ts}" + (f", offset: {desc[3]}" if desc[3] else "") + ">"


class RT:
    """run-time view of one memref: symbolic base, sizes, (strides, offset) as z3 Ints; ref(x) = byte address of
    logical index x by the layout's semantics (MLIR strided / TSL with the documented dynamic-entry contract)."""

    def __init__(self, tag, desc, shape, el, other=None):
        self.tag, self.desc, self.el = tag, desc, el
        self.base = z3.Int(f"{tag}_base")
        E = eng()
        E.assume(self.base >= 0)
        self.sizes = []
        for d, s in enumerate(shape):
            if s is None:
                inner = 1
                for dd in (desc, other):  # both memrefs have the same run-time shape
                    if dd is not None and dd[0] == "tsl" and len(dd[1][d]) > 1:
                        inner = max(inner, int(np.prod([b for b in dd[1][d][1:]])))
                q = z3.Int(f"q{d}")  # shared between source and destination: equal shapes
                E.assume(z3.And(q >= 1, q <= NMAX))
                self.sizes.append(q * inner)
            else:
                self.sizes.append(z3.IntVal(s))
        rank = len(shape)
        if desc[0] == "id":
            self.strides = [None] * rank
            acc = z3.IntVal(1)
            for d in reversed(range(rank)):
                self.strides[d] = acc
                acc = acc * self.sizes[d]
            self.offset = z3.IntVal(0)
        elif desc[0] == "strided":
            self.strides = []
            for d, s in enumerate(desc[1]):
                if s is None:
                    v = z3.Int(f"{tag}_stride{d}")
                    self.strides.append(v)
                else:
                    self.strides.append(z3.IntVal(s))
            # dynamic strides: contract of a non-overlapping strided view (memref.copy is only defined for those):
            # taken from the last dimension to the first, every dynamic stride is at least the extent of everything
            # placed so far (all static-stride dimensions first)
            extent = z3.IntVal(1)
            for d in range(rank):
                if desc[1][d] is not None:
                    extent = extent + (self.sizes[d] - 1) * self.strides[d]
            for d in reversed(range(rank)):
                if desc[1][d] is None:
                    E.assume(self.strides[d] >= extent)
                    E.assume(self.strides[d] <= 4096)
                    extent = extent + (self.sizes[d] - 1) * self.strides[d]
            if desc[2] is None:
                self.offset = z3.Int(f"{tag}_offset")
                E.assume(z3.And(self.offset >= 0, self.offset <= 1000))
            else:
                self.offset = z3.IntVal(desc[2])
        else:
            self.strides = None
            self.offset = z3.IntVal(desc[3] or 0)

    def ref(self, x):
        if self.desc[0] in ("id", "strided"):
            return self.base + (self.offset + sum((xi * s for xi, s in zip(x, self.strides)), z3.IntVal(0))) * self.el
        bounds = [[(b if b is not None else None) for b in bs] for bs in self.desc[1]]
        steps = [list(ss) for ss in self.desc[2]]
        # dynamic outermost bound = size / inner product; dynamic steps by contiguity are not generated here (static steps only)
        tot = z3.IntVal(0)
        for d, (bs, ss) in enumerate(zip(bounds, steps)):
            for k in range(len(bs)):
                inner = int(np.prod(bs[k + 1:])) if bs[k + 1:] else 1
                dig = x[d] / inner
                if k > 0:
                    dig = dig % bs[k]
                tot = tot + dig * ss[k]
        return self.base + (self.offset + tot) * self.el


def handlers(src_rt, dst_rt, src_v, dst_v):
    def rt_of(v):
        return src_rt if v is src_v else dst_rt if v is dst_v else None

    def h_ptr(I, op):
        I.set(op.results[0], rt_of(op.source).base)

    def h_dim(I, op):
        idx = z3.simplify(I.get(op.index)).as_long()
        I.set(op.result, rt_of(op.source).sizes[idx])

    def h_meta(I, op):
        r = rt_of(op.operands[0])
        rank = len(r.sizes)
        res = list(op.results)
        I.set(res[0], Opaque("base_buffer"))
        I.set(res[1], r.offset)
        for d in range(rank):
            I.set(res[2 + d], r.sizes[d])
            if r.strides is not None:
                I.set(res[2 + rank + d], r.strides[d])
            else:
                I.set(res[2 + rank + d], z3.Int(f"unknown_stride_{d}"))

    def h_call(I, op):
        name = op.callee.root_reference.data
        a = [I.get(o) for o in op.operands]
        if name == "snax_dma_1d_transfer":
            I.emit("xfer", a[0], a[1], a[2])
        elif name == "snax_dma_2d_transfer":
            s, d, size, ss, ds, rep = a
            k = 0
            while eng().branch(k < rep):
                if k >= 64:
                    eng().stats.unwinding_assumptions += 1
                    raise sym.PathAbort("infeasible: repeat bound")
                I.emit("xfer", s + k * ss, d + k * ds, size)
                k += 1
        else:
            raise irsym.InterpError(name)

    return {"memref.extract_aligned_pointer_as_index": h_ptr, "memref.dim": h_dim, "memref.extract_strided_metadata": h_meta,
            "func.call": h_call}


def case_copy(case):
    from xdsl.parser import Parser

    from snaxc.transforms.snax_copy_to_dma import SNAXCopyToDMA

    shape, elw, sdesc, ddesc = case
    el = (elw + 7) // 8  # an element occupies whole bytes (i1 / i4: one byte, i12: two)
    shp = "x".join("?" if s is None else str(s) for s in shape)
    ts = f"memref<{shp}xi{elw}{layout_text(sdesc, shape)}>"
    td = f"memref<{shp}xi{elw}{layout_text(ddesc, shape)}>"
    src = f"""
func.func @f(%s : {ts}, %d : {td}) {{
  "memref.copy"(%s, %d) : ({ts}, {td}) -> ()
  func.return
}}
"""
    dynamic = any(s is None for s in shape) or any(
        dd[0] == "strided" and (any(x is None for x in dd[1]) or dd[2] is None) for dd in (sdesc, ddesc))

    def fn():
        E = eng()
        ctx = xshim.make_ctx()
        m = Parser(ctx, src).parse_module()
        SNAXCopyToDMA().apply(ctx, m)
        f = [g for g in irsym.module_funcs(m) if g.sym_name.data == "f"][0]
        left = [o for o in m.walk() if o.name == "memref.copy"]
        # two tiled layouts with different tile sizes: the tile-by-tile loop nest cannot express the copy; leaving the
        # memref.copy alone (no DMA call emitted) is a refusal, not a wrong copy
        differently_tiled = sdesc[0] == "tsl" and ddesc[0] == "tsl" and sdesc[1] != ddesc[1]
        if left and differently_tiled and not [o for o in m.walk() if o.name == "func.call"]:
            E.oblige("explored", True)
            return
        E.oblige("lowered:no_copy_left", z3.BoolVal(not left))
        if left:
            return
        S, D = RT("src", sdesc, shape, el, ddesc), RT("dst", ddesc, shape, el, sdesc)
        # buffers do not overlap (assumption of memref.copy)
        I = irsym.Interp(K=64, intmode=True)
        a0, a1 = f.body.blocks[0].args
        I.handlers.update(handlers(S, D, a0, a1))
        I.run_func(f, [Opaque("src"), Opaque("dst")])
        xf = [e for e in I.events if e[0] == "xfer"]
        E.oblige("transfers:at_least_one", z3.BoolVal(len(xf) >= 1))
        x = [z3.Int(f"x{d}") for d in range(len(shape))]
        b = z3.Int("b")
        for xi, n in zip(x, S.sizes):
            E.assume(z3.And(xi >= 0, xi < n))
        E.assume(z3.And(b >= 0, b < el))
        Dst, Src = D.ref(x) + b, S.ref(x) + b
        ins = [z3.And(d <= Dst, Dst < d + n) for (_, s, d, n) in xf]
        E.oblige("copy:every_destination_byte_is_written", z3.Or(ins) if ins else z3.BoolVal(False), dict(transfers=len(xf)))
        E.oblige("copy:written_from_the_corresponding_source_byte", z3.And([z3.Implies(c, Dst - d == Src - s) for c, (_, s, d, n) in zip(ins, xf)]),
                 dict(transfers=len(xf)))
        E.oblige("transfers:positive_size", z3.And([n > 0 for (_, s, d, n) in xf] or [z3.BoolVal(True)]))
        if not dynamic:
            # footprints (static shapes: expanded)
            fs, fd = set(), set()
            sb, db = S.base, D.base
            for idx in itertools.product(*[range(s) for s in shape]):
                a = z3.simplify(S.ref([z3.IntVal(i) for i in idx]) - sb).as_long()
                c = z3.simplify(D.ref([z3.IntVal(i) for i in idx]) - db).as_long()
                fs.update(range(a, a + el))
                fd.update(range(c, c + el))
            rd, wr = set(), set()
            ok = True
            for (_, s, d, n) in xf:
                so, do, nn = z3.simplify(s - sb), z3.simplify(d - db), z3.simplify(n)
                if not (z3.is_int_value(so) and z3.is_int_value(do) and z3.is_int_value(nn)):
                    ok = False
                    break
                rd.update(range(so.as_long(), so.as_long() + nn.as_long()))
                wr.update(range(do.as_long(), do.as_long() + nn.as_long()))
            if ok:
                E.oblige("footprint:reads_only_source_bytes", z3.BoolVal(rd <= fs), dict(outside=sorted(rd - fs)[:8]))
                E.oblige("footprint:writes_only_destination_bytes", z3.BoolVal(wr <= fd), dict(outside=sorted(wr - fd)[:8]))
        calls = [o.callee.root_reference.data for o in m.walk() if o.name == "func.call"]
        E.notes.append("lowering=" + ("single_1d_transfer" if calls == ["snax_dma_1d_transfer"] else "loops_or_2d"))
        E.notes.append(f"transfers={len(xf)}")

    def replay(f):
        ok, d = replay_pinned(fn, f)
        d["program"] = src
        return ok, d

    def sig(f, v):
        tags = []
        if any(desc[0] == "strided" and any(s is None for s in desc[1]) for desc in (sdesc, ddesc)):
            tags.append("dynamic_stride")
            if any(n == "lowering=single_1d_transfer" for n in (f.get("notes") or [])):
                tags.append("collapsed_to_single_1d_transfer")
        elif dynamic:
            tags.append("dynamic_shape")
        return f["name"] + ("|" + "+".join(tags) if tags else "")

    return run_case(fn, replay, signature=sig, sample=dict(shape=shape, width=elw, src=str(sdesc), dst=str(ddesc)), key=str(case),
                    max_paths=300, timeout_ms=20000)


def row_major(bounds):
    flat = [(d, k) for d, bs in enumerate(bounds) for k in range(len(bs))]
    st = [[0] * len(bs) for bs in bounds]
    acc = 1
    for d, k in reversed(flat):
        st[d][k] = acc
        acc *= bounds[d][k]
    return st


def tiled_steps(bounds, order, pad=0):
    """steps assigned contiguously following `order` (list of (dim,depth), innermost first); pad adds a gap."""
    st = [[0] * len(bs) for bs in bounds]
    acc = 1
    for i, (d, k) in enumerate(order):
        st[d][k] = acc
        acc *= bounds[d][k]
        if pad and i == 0:
            acc += pad
    return st


def run(chk):
    quick = chk.tier == "quick"
    rnd = random.Random(chk.seed)
    chk.functions = ["snaxc.transforms.snax_copy_to_dma.MatchSimpleCopy/TransformDMA/get_total_size_op/extract_strides/extract_offset",
                     "snaxc.dialects.tsl.TiledStridedLayoutAttr.get_bound_ops/get_step_ops", "snaxc.ir.tsl.TiledStridedLayout.from_strides/largest_common_contiguous_block",
                     "runtime/include/snax_rt.h (DMA argument order and semantics, transcribed)"]
    chk.explanation = (
        "Translation validation of snax-copy-to-dma: a memref.copy between an enumerated pair of layouts (identity, strided with "
        "offset, tiled-strided depth <= 3; static and dynamic shapes) is lowered by the real pass and the emitted arith/scf/func.call "
        "code is executed by the symbolic IR interpreter on a DMA machine (1-D transfer = n bytes, 2-D transfer = `repeat` chunks; "
        "argument order from snax_rt.h). Dynamic sizes, dynamic strides/offsets and base pointers are symbolic; loops unroll under "
        "path conditions. z3 proves for a symbolic logical index x and byte b that the destination byte dst+bytes(L_dst(x))+b is "
        "written by some transfer and that every transfer writing it reads it from src+bytes(L_src(x))+b (so any transfer order is "
        "right); for static shapes every byte read/written lies in the source/destination footprint (expanded).")
    chk.assumptions = ["source and destination buffers do not overlap; layouts have equal tile bounds (the pass's precondition)",
                       f"dynamic sizes are 1..{NMAX} outer tiles (multiples of the inner tile product); dynamic strides non-overlapping and <= 64; dynamic offset 0..1000",
                       "mathematical-int index arithmetic (no overflow)"]
    cases = []
    # static 1-D/2-D/3-D: identity <-> strided/tsl
    for elw in (8, 32) if quick else (8, 16, 32, 64):
        cases.append(((8,), elw, ("id",), ("id",)))
        cases.append(((8,), elw, ("strided", [1], 4), ("id",)))
        cases.append(((8,), elw, ("id",), ("strided", [2], 0)))
        cases.append(((4, 8), elw, ("id",), ("id",)))
        cases.append(((4, 8), elw, ("strided", [16, 1], 3), ("id",)))
        cases.append(((4, 8), elw, ("id",), ("strided", [1, 4], 0)))
        cases.append(((4, 8), elw, ("strided", [8, 1], 0), ("strided", [1, 4], 5)))
        for b2 in ([[2, 2], [2, 4]], [[4], [2, 4]], [[2, 2], [8]], [[1, 4], [2, 4]]):
            rm = row_major(b2)
            flat = [(d, k) for d, bs in enumerate(b2) for k in range(len(bs))]
            tl = tiled_steps(b2, [(1, len(b2[1]) - 1), (0, len(b2[0]) - 1)] + [p for p in reversed(flat) if p not in ((1, len(b2[1]) - 1), (0, len(b2[0]) - 1))])
            tp = tiled_steps(b2, list(reversed(flat)), pad=3)
            cases.append(((4, 8), elw, ("id",), ("tsl", b2, tl, 0)))
            cases.append(((4, 8), elw, ("tsl", b2, tl, 0), ("id",)))
            cases.append(((4, 8), elw, ("tsl", b2, rm, 0), ("tsl", b2, tl, 0)))
            cases.append(((4, 8), elw, ("tsl", b2, tl, 0), ("tsl", b2, tp, 2)))
            cases.append(((4, 8), elw, ("strided", [8, 1], 0), ("tsl", b2, tp, 0)))
    # layouts with equal steps in different dimensions / unit bounds
    cases.append(((1, 8), 8, ("tsl", [[1], [2, 4]], [[8], [4, 1]], 0), ("tsl", [[1], [2, 4]], [[4], [8, 1]], 0)))
    cases.append(((2, 2), 8, ("tsl", [[2], [2]], [[2], [1]], 0), ("tsl", [[2], [2]], [[1], [2]], 0)))
    cases.append(((2, 2, 2), 8, ("tsl", [[2], [2], [2]], [[4], [2], [1]], 0), ("tsl", [[2], [2], [2]], [[1], [2], [4]], 0)))
    # rank 3-4 permutations with a single-element common block (needs >= 3 loops)
    cases.append(((2, 3, 4), 8, ("id",), ("strided", [1, 2, 6], 0)))
    cases.append(((5, 4, 3, 2), 8, ("id",), ("strided", [1, 5, 20, 60], 0)))
    cases.append(((4, 4), 8, ("tsl", [[2, 2], [2, 2]], [[8, 2], [4, 1]], 0), ("tsl", [[2, 2], [2, 2]], [[1, 4], [2, 8]], 0)))
    cases.append(((4, 8), 8, ("tsl", [[4], [2, 2, 2]], [[8], [4, 2, 1]], 0), ("tsl", [[4], [2, 2, 2]], [[1], [4, 8, 16]], 0)))
    # dynamic shapes
    # two tiled layouts of the same shape with DIFFERENT tile sizes
    for elw in (8, 32):
        cases.append(((8,), elw, ("tsl", [[2, 4]], [[4, 1]], 0), ("tsl", [[4, 2]], [[16, 1]], 0)))
        cases.append(((8, 8), elw, ("tsl", [[2, 4], [2, 4]], [[32, 4], [16, 1]], 0), ("tsl", [[4, 2], [8]], [[16, 8], [1]], 0)))
        cases.append(((16,), elw, ("tsl", [[2, 8]], [[8, 1]], 0), ("tsl", [[4, 4]], [[8, 1]], 0)))
    # sub-byte elements with strides only known at run time
    for elw in (1, 4):
        cases.append(((None, 4), elw, ("strided", [None, 1], 0), ("id",)))
        cases.append(((None, 8), elw, ("id",), ("strided", [None, 1], 0)))
        cases.append(((4, 8), elw, ("strided", [None, 1], 0), ("tsl", [[2, 2], [2, 4]], [[16, 4], [8, 1]], 0)))
    # broadcast sources: a static stride of 0 (one row / one element replicated)
    for elw in (8, 32):
        cases.append(((4, 8), elw, ("strided", [0, 1], 0), ("id",)))
        cases.append(((4, 8), elw, ("strided", [0, 1], 2), ("tsl", [[2, 2], [2, 4]], [[16, 4], [8, 1]], 0)))
        cases.append(((4, 8), elw, ("strided", [8, 0], 0), ("id",)))
        cases.append(((8,), elw, ("strided", [0], 0), ("id",)))
        cases.append(((2, 4, 8), elw, ("strided", [0, 8, 1], 0), ("id",)))
    # element widths that are not a multiple of 8 bits
    for elw in (1, 4, 12) if quick else (1, 4, 12, 24, 48):
        b2 = [[2, 2], [2, 4]]
        cases.append(((4, 8), elw, ("id",), ("id",)))
        cases.append(((4, 8), elw, ("id",), ("strided", [1, 4], 0)))
        cases.append(((4, 8), elw, ("strided", [16, 1], 3), ("id",)))
        cases.append(((4, 8), elw, ("id",), ("tsl", b2, [[16, 4], [8, 1]], 0)))
        cases.append(((4, 8), elw, ("tsl", b2, [[16, 4], [8, 1]], 0), ("strided", [8, 1], 0)))
        cases.append(((None, 8), elw, ("id",), ("tsl", [[None, 2], [2, 4]], [[32, 4], [16, 1]], 0)))
    for elw in (8, 32):
        cases.append(((None,), elw, ("id",), ("id",)))
        cases.append(((None, 8), elw, ("id",), ("id",)))
        cases.append(((None, None), elw, ("id",), ("id",)))
        cases.append(((None, 8), elw, ("id",), ("tsl", [[None, 2], [2, 4]], [[32, 4], [16, 1]], 0)))
        cases.append(((None, 8), elw, ("tsl", [[None, 2], [2, 4]], [[32, 4], [16, 1]], 0), ("id",)))
        cases.append(((None, None), elw, ("strided", [None, 1], 0), ("id",)))
        cases.append(((None, None), elw, ("id",), ("strided", [None, 1], None)))
        cases.append(((None, None, 1), elw, ("id",), ("strided", [1, None, 1], 0)))
        cases.append(((4, None), elw, ("strided", [None, 1], 7), ("id",)))
    # dynamic strides against tiled layouts (tile depth 2 in the dimension with the dynamic stride)
    for elw in (8, 32):
        for b2 in ([[2, 2], [2, 4]], [[2, 2], [8]], [[4], [2, 4]], [[2, 2, 1], [2, 4]]):
            flat = [(d, k) for d, bs in enumerate(b2) for k in range(len(bs))]
            tl = tiled_steps(b2, [(1, len(b2[1]) - 1), (0, len(b2[0]) - 1)] + [p for p in reversed(flat) if p not in ((1, len(b2[1]) - 1), (0, len(b2[0]) - 1))])
            cases.append(((4, 8), elw, ("strided", [None, 1], None), ("tsl", b2, tl, 0)))
            cases.append(((4, 8), elw, ("tsl", b2, tl, 0), ("strided", [None, 1], 0)))
            cases.append(((4, 8), elw, ("strided", [None, 1], 0), ("tsl", b2, row_major(b2), 0)))
    # seeded family: random shapes, random tilings (equal tile bounds on both sides), independent random nesting orders
    # of the tile dimensions on each side, optional gap and offset, strided permutations
    def splits(d):
        res = [[d]]
        for a in range(2, d):
            if d % a == 0:
                res.append([d // a, a])
        return res

    def rand_layout(shape, bounds):
        r = rnd.random()
        if r < 0.2:
            return ("id",)
        if r < 0.4:
            perm = list(range(len(shape)))
            rnd.shuffle(perm)
            strides = [0] * len(shape)
            acc = 1
            for d in perm:
                strides[d] = acc
                acc *= shape[d]
            return ("strided", strides, rnd.choice([0, 0, 3]))
        flat = [(d, k) for d, bs in enumerate(bounds) for k in range(len(bs))]
        rnd.shuffle(flat)
        return ("tsl", bounds, tiled_steps(bounds, flat, pad=rnd.choice([0, 0, 2])), rnd.choice([0, 0, 5]))

    for _ in range(50 if quick else 4000):
        shape = tuple(rnd.choice([1, 2, 3, 4, 6, 8]) for _ in range(rnd.choice([1, 2, 2, 3])))
        if int(np.prod(shape)) > 96:
            continue
        bounds = [rnd.choice(splits(d)) for d in shape]
        cases.append((shape, rnd.choice([8, 32] if quick else [8, 16, 32, 64]), rand_layout(shape, bounds), rand_layout(shape, bounds)))
    chk.add_results("copy_lowering", pmap(case_copy, cases, chunks=2))
    chk.bounds = dict(cases=len(cases), ranks="1..4", widths="8/32 quick, 8/16/32/64 thorough; 1/4/12 (24/48 thorough) bits on layout-changing copies", dynamic_sizes=f"1..{NMAX} tiles", elements="<= 120 static")
    chk.outside = ["dynamic tile steps inside tsl layouts", "overlapping source/destination", "sizes beyond the stated ranges"]
