"""C13 - cross-core dependencies are separated by a cluster barrier."""

from __future__ import annotations

import random

import z3

from .. import irsym, mc_common as mc, sym, xshim
from ..harness import replay_pinned, run_case
from ..irsym import Opaque
from ..runner import pmap
from ..sym import eng

LEVEL = "other"

T8 = "memref<8xi32>"
T4 = "memref<4xi32, strided<[1], offset: ?>>"
T8B = "memref<8xi8>"  # quantised data: target / source of the xDMA's rescale kernels
GENERIC8 = mc.GENERIC.replace(" : i32,", " : i8,").replace(" : i32):", " : i8):").replace("(i32, i32) -> i32", "(i8, i8) -> i8").replace("(i32) -> ()", "(i8) -> ()")


class Gen:
    def __init__(self, rnd):
        self.rnd = rnd
        self.tag = 0
        self.vals = {"%b0": T8, "%b1": T8, "%a0": T8, "%a1": T8, "%a2": T8, "%e0": T8B, "%d0": T8B, "%d1": T8B}
        self.nview = 0

    def newtag(self):
        self.tag += 1
        return self.tag

    def pick(self, ty=None):
        c = [v for v, t in self.vals.items() if ty is None or t == ty]
        return self.rnd.choice(c)

    def stmt(self, depth):
        r = self.rnd.random()
        if depth > 0 and r < 0.13:
            kind = self.rnd.choice(["args", "args", "k0_3_2", "k0_48_32", "k0_2_1", "k0_1_1", "k16_56_32"])
            return ("for", self.block(depth - 1, self.rnd.randint(2, 4)), kind)
        if depth > 0 and r < 0.20:
            return ("if", self.rnd.randrange(2), self.block(depth - 1, self.rnd.randint(1, 3)),
                    self.block(depth - 1, self.rnd.randint(1, 3)) if self.rnd.random() < 0.6 else None)
        if depth > 0 and r < 0.225:
            # a loop that allocates a temporary, fills it on the data mover, consumes it on the compute core and frees it
            # as the last thing of its body
            return ("fortmp", self.pick(T8), self.pick(T8), self.pick(T8), self.newtag(), self.newtag(), self.rnd.choice(["args", "k0_3_2", "k0_2_1"]))
        if r < 0.28 and self.nview < 3:
            self.nview += 1
            nm = f"%v{self.nview}"
            base = self.pick(T8)
            off = self.rnd.choice(["0", "4", "%o0", "%o1"])
            self.vals[nm] = T4
            return ("view", nm, base, off)
        if r < 0.55:
            ty = self.rnd.choice([T8, T8, T4]) if any(t == T4 for t in self.vals.values()) else T8
            return ("copy", self.pick(ty), self.pick(ty), ty, self.newtag())
        if r < 0.80:
            ty = self.rnd.choice([T8, T8, T4]) if any(t == T4 for t in self.vals.values()) else T8
            return ("gen", self.pick(ty), self.pick(ty), self.pick(ty), ty, self.newtag())
        if r < 0.84:
            return ("region", self.rnd.choice(["snax_gemmx", "snax_xdma"]), self.pick(T8), self.pick(T8), self.pick(T8), self.newtag())
        if r < 0.88:
            # quantised data: rescale down / up on the xDMA (data mover), consumers and producers on i8 buffers
            k = self.rnd.random()
            if k < 0.55:
                ti, to = self.rnd.choice([(T8, T8B), (T8, T8B), (T8B, T8)])
                return ("xregion", "snax_xdma", ti, to, self.pick(ti), self.pick(to), self.newtag())
            if k < 0.8:
                return ("gen8", self.pick(T8B), self.pick(T8B), self.pick(T8B), self.newtag())
            return ("copy", self.pick(T8B), self.pick(T8B), T8B, self.newtag())
        if r < 0.92:
            v = self.pick()
            return ("use", v, self.vals[v], self.newtag())
        if r < 0.95:
            return ("barrier",)
        return ("test", self.newtag())

    def block(self, depth, n):
        out = []
        for _ in range(n):
            s = self.stmt(depth)
            out.append(s)
        return out


def render(prog, deallocs, diamond=None):
    L = []
    n = [0]

    def emit(stmts, ind):
        P = "  " * ind
        for s in stmts:
            if s[0] == "copy":
                L.append(P + f'"memref.copy"({s[1]}, {s[2]}) {{tag = {s[4]} : i32}} : ({s[3]}, {s[3]}) -> ()')
            elif s[0] == "gen":
                L.append(P + mc.GENERIC.format(i0=s[1], i1=s[2], o=s[3], t=s[5], ty=s[4], ind=P))
            elif s[0] == "region":
                L.append(P + mc.GEMMX_REGION.replace("%k{t}", "%kk{t}").format(acc=s[1], i0=s[2], i1=s[3], o=s[4], t=s[5], ty=T8, ind=P))
            elif s[0] == "xregion":
                _, acc, ti, to, a, b, t = s
                el = lambda ty: "i32" if ty == T8 else "i8"
                L.append(P + mc.XDMA_REGION1.format(acc=acc, i0=a, o=b, t=t, ti=el(ti), to=el(to), tyi=ti, tyo=to, ind=P))
            elif s[0] == "gen8":
                L.append(P + GENERIC8.format(i0=s[1], i1=s[2], o=s[3], t=s[4], ty=T8B, ind=P))
            elif s[0] == "fortmp":
                _, x, y, z, t1, t2, kind = s
                n[0] += 1
                if kind == "args":
                    lo, hi, stp = "%lb", "%ub", "%st"
                else:
                    a, b, c = kind[1:].split("_")
                    lo, hi, stp = f"%k{a}", f"%k{b}", f"%k{c}"
                L.append(P + f"scf.for %i{n[0]} = {lo} to {hi} step {stp} {{")
                L.append(P + f"  %tmp{n[0]} = memref.alloc() : {T8}")
                L.append(P + f'  "memref.copy"({x}, %tmp{n[0]}) {{tag = {t1} : i32}} : ({T8}, {T8}) -> ()')
                L.append(P + "  " + mc.GENERIC.format(i0=f"%tmp{n[0]}", i1=y, o=z, t=t2, ty=T8, ind=P + "  "))
                L.append(P + f'  "memref.dealloc"(%tmp{n[0]}) {{tag = {800 + n[0]} : i32}} : ({T8}) -> ()')
                L.append(P + "}")
            elif s[0] == "use":
                L.append(P + f'"test.op"({s[1]}) {{tag = {s[3]} : i32}} : ({s[2]}) -> ()')
            elif s[0] == "test":
                L.append(P + f'"test.op"() {{tag = {s[1]} : i32}} : () -> ()')
            elif s[0] == "barrier":
                L.append(P + '"snax.cluster_sync_op"() : () -> ()')
            elif s[0] == "view":
                L.append(P + f"{s[1]} = memref.subview {s[2]}[{s[3]}] [4] [1] : {T8} to {T4}")
            elif s[0] == "if":
                L.append(P + f"scf.if %c{s[1]} {{")
                emit(s[2], ind + 1)
                if s[3] is not None:
                    L.append(P + "} else {")
                    emit(s[3], ind + 1)
                L.append(P + "}")
            elif s[0] == "while":
                # the same counting loop written as scf.while: the body is the "do" region
                n[0] += 1
                w = n[0]
                L.append(P + f"%w{w} = scf.while (%wi{w} = %lb) : (index) -> index {{")
                L.append(P + f"  %wc{w} = arith.cmpi slt, %wi{w}, %ub : index")
                L.append(P + f"  scf.condition(%wc{w}) %wi{w} : index")
                L.append(P + "} do {")
                L.append(P + f"^bb0(%wj{w} : index):")
                emit(s[1], ind + 1)
                L.append(P + f"  %wn{w} = arith.addi %wj{w}, %k1 : index")
                L.append(P + f"  scf.yield %wn{w} : index")
                L.append(P + "}")
            elif s[0] == "for":
                n[0] += 1
                kind = s[2] if len(s) > 2 else "args"
                if kind == "args":
                    lo, hi, stp = "%lb", "%ub", "%st"
                else:
                    _, a, b, c = kind.replace("k", "k_").split("_")[0:1] + kind[1:].split("_")
                    lo, hi, stp = f"%k{a}", f"%k{b}", f"%k{c}"
                L.append(P + f"scf.for %i{n[0]} = {lo} to {hi} step {stp} {{")
                emit(s[1], ind + 1)
                L.append(P + "}")

    emit(prog, 2)
    if diamond is not None:
        # a function body of several blocks: ^bb0 (the statements above) branches to ^bb1 or ^bb2, both continue at ^bb3
        cnd, then_s, else_s, tail_s = diamond
        L.append(f"    cf.cond_br %c{cnd}, ^bb1, ^bb2")
        for lbl, st in (("^bb1", then_s), ("^bb2", else_s)):
            L.append(f"  {lbl}:")
            emit(st, 2)
            L.append("    cf.br ^bb3")
        L.append("  ^bb3:")
        emit(tail_s, 2)
    de = "\n".join(f'    "memref.dealloc"(%a{i}) {{tag = {900 + i} : i32}} : ({T8}) -> ()' for i in deallocs)
    return f"""
builtin.module {{
  func.func public @f(%b0 : {T8}, %b1 : {T8}, %o0 : index, %o1 : index, %lb : index, %ub : index, %st : index, %c0 : i1, %c1 : i1, %e0 : {T8B}) {{
    %k0 = arith.constant 0 : index
    %k1 = arith.constant 1 : index
    %k2 = arith.constant 2 : index
    %k3 = arith.constant 3 : index
    %k16 = arith.constant 16 : index
    %k32 = arith.constant 32 : index
    %k48 = arith.constant 48 : index
    %k56 = arith.constant 56 : index
    %a0 = memref.alloc() : {T8}
    %a1 = memref.alloc() : {T8}
    %a2 = memref.alloc() : {T8}
    %d0 = memref.alloc() : {T8B}
    %d1 = memref.alloc() : {T8B}
{chr(10).join(L)}
{de}
    func.return
  }}
}}
"""


def view_scoped(prog):
    """views must be defined before use and not inside loops that other statements escape: keep views at top level."""
    def inner(st):
        if st[0] in ("for", "while"):
            return list(st[1])
        if st[0] == "if":
            return list(st[2]) + list(st[3] or [])
        return []

    def ok(stmts):
        return all(s[0] != "view" and ok(inner(s)) for s in stmts)

    return all(ok(inner(st)) for st in prog)


def region_of(v):
    """(root identity, lo, hi) in elements"""
    if isinstance(v, Opaque) and v.kind == "view":
        root, lo, hi = region_of(v.of)
        off = v.offsets[0] if v.offsets else z3.BitVecVal([s for s in v.static][0], 32)
        return root, lo + off, lo + off + 4
    return v, z3.BitVecVal(0, 32), z3.BitVecVal(8, 32)


def accesses(op, I):
    """list of (region, is_write) of an effect op"""
    n = op.name
    get = lambda o: region_of(I.get(o)) + (o,)
    if n == "memref.copy":
        return [(get(op.operands[0]), False), (get(op.operands[1]), True)]
    if n in ("linalg.generic", "dart.operation"):
        ins, outs = list(op.inputs), list(op.outputs)
        return [(get(o), False) for o in ins] + [(get(o), True) for o in outs]
    if n == "memref.dealloc":
        return [(get(op.operands[0]), True)]
    return [(get(o), False) for o in op.operands if o.type.name == "memref"]


def run_trace(m, args, core, K):
    I = irsym.Interp(K=K, W=32)
    ev = []

    def rec(I, op, cls):
        ev.append(("op", mc.op_tag(op), cls, accesses(op, I)))

    I.handlers.update(mc.effect_handlers(rec))
    I.handlers["snax.cluster_sync_op"] = lambda I, op: ev.append(("barrier",))

    def h_call(I, op):
        nm = op.callee.root_reference.data
        if nm == "snax_cluster_core_idx":
            I.set(op.results[0], core)
        elif nm == "snax_cluster_hw_barrier":
            ev.append(("barrier",))

    I.handlers["func.call"] = h_call
    f = [g for g in irsym.module_funcs(m) if g.sym_name.data == "f"][0]
    I.run_func(f, args)
    return ev


CORES = {"dm": {"DM"}, "compute": {"C"}, "all": {"DM", "C", "X"}}


def case_prog(case, K=2):
    from xdsl.parser import Parser

    from snaxc.transforms.dispatch_regions import DispatchRegions
    from snaxc.transforms.insert_sync_barrier import InsertSyncBarrier

    prog, deallocs = case[:2]
    src = render(prog, deallocs, case[2] if len(case) > 2 else None)

    def fn():
        E = eng()
        main = xshim.make_main()
        try:
            from snaxc.accelerators.snax_xdma import SNAXXDMAAccelerator

            main.ctx.register_accelerator("snax_xdma", SNAXXDMAAccelerator)  # only registered through config files otherwise
        except ValueError:
            pass
        m = Parser(main.ctx, src).parse_module()
        InsertSyncBarrier().apply(main.ctx, m)
        m3 = m.clone()
        DispatchRegions(nb_cores=2).apply(main.ctx, m3)
        bufs = [Opaque("buffer", name=f"b{i}") for i in range(2)]
        o0, o1 = z3.BitVec("o0", 32), z3.BitVec("o1", 32)
        lb, ub, st = z3.BitVec("lb", 32), z3.BitVec("ub", 32), z3.BitVec("st", 32)
        E.assume(z3.And(o0 >= 0, o0 <= 4, o1 >= 0, o1 <= 4, st > 0, st < 64, lb >= 0, lb < 64, ub >= 0, ub < 64))
        args = bufs + [o0, o1, lb, ub, st, z3.BitVec("c0", 1), z3.BitVec("c1", 1), Opaque("buffer", name="e0")]
        ev = run_trace(m, args, None, K)
        # (ii) race freedom per epoch
        epoch = []
        for e in ev + [("barrier",)]:
            if e[0] == "barrier":
                for i in range(len(epoch)):
                    for j in range(i):
                        _, t1, c1, a1 = epoch[i]
                        _, t2, c2, a2 = epoch[j]
                        # the two ops can run on different cores?
                        if len(CORES[c1] | CORES[c2]) < 2 or (c1 == c2 and c1 != "all"):
                            continue
                        for (r1, w1) in a1:
                            for (r2, w2) in a2:
                                if not (w1 or w2) or r1[0] is not r2[0]:
                                    continue
                                if c1 == "all" and c2 == "all" and not (w1 and w2):
                                    continue
                                overlap = z3.And(r1[1] < r2[2], r2[1] < r1[2])
                                # epoch[j] precedes epoch[i] in program order
                                if c2 == "all" and not w2:
                                    name = "race:undispatched_reader_then_dispatched_writer"
                                else:
                                    name = "race:cross_core_accesses_in_one_epoch_do_not_overlap"
                                E.oblige(name, z3.Not(overlap),
                                         dict(first=(t2, c2, "w" if w2 else "r"), second=(t1, c1, "w" if w1 else "r"),
                                              values="same_ssa_value" if r1[3] is r2[3] else "different_ssa_values_of_one_buffer"))
                epoch = []
            else:
                epoch.append(e)
        # (i) every core executes every barrier: after dispatching, the barrier count does not depend on the core id
        nb = sum(1 for e in ev if e[0] == "barrier")
        core = z3.BitVec("core", 32)
        E.assume(z3.ULT(core, 2))
        E.branch(core == 0)
        ev3 = run_trace(m3, args, core, K)
        nb3 = sum(1 for e in ev3 if e[0] == "barrier")
        E.oblige("barriers:executed_by_every_core", z3.BoolVal(nb == nb3), dict(before_dispatch=nb, on_this_core=nb3))
        # lowering to function calls (snax-to-func) keeps every barrier (deallocations disappear, barriers do not)
        m4 = m3.clone()
        try:
            xshim.apply_passes(m4, "snax-to-func", main)
            nb4 = sum(1 for e in run_trace(m4, args, core, K) if e[0] == "barrier")
            E.oblige("barriers:kept_by_the_lowering_to_function_calls", z3.BoolVal(nb4 == nb3), dict(before=nb3, after=nb4))
        except irsym.InterpError as e:
            E.notes.append(f"snax-to-func output not executed: {str(e)[:80]}")
        E.oblige("explored", True)

    def replay(f):
        ok, d = replay_pinned(fn, f)
        d["program"] = src
        return ok, d

    def sig(f, v):
        info = f.get("info") or {}
        tags = []
        if info.get("values"):
            tags.append(info["values"])
        return f["name"] + ("|" + "+".join(tags) if tags else "")

    return run_case(fn, replay, signature=sig, sample=dict(program=str(prog)[:300], deallocs=deallocs, blocks=4 if len(case) > 2 else 1), key=str(case), max_paths=200)


def run(chk):
    quick = chk.tier == "quick"
    rnd = random.Random(chk.seed)
    chk.functions = ["snaxc.transforms.insert_sync_barrier.InsertSyncBarrier", "snaxc.transforms.dispatch_regions.DispatchRegions (barriers stay outside guards)",
                     "snaxc.util.dispatching_rules (executed inside the passes; the machine classifies independently)"]
    chk.explanation = (
        "Generated functions mixing memref.copy (data mover), linalg.generic (compute core) and un-dispatched consumers on shared "
        "allocations and function arguments, subviews with symbolic offsets, (nested) loops with symbolic trip counts, pre-existing "
        "barriers and deallocs go through the real insert-sync-barrier (and dispatch-regions). The result is executed on a "
        "barrier-synchronised multi-core machine: barriers cut the run into epochs; for every epoch and every pair of accesses that can "
        "come from different cores with at least one write, z3 proves that the two regions (root buffer, symbolic element interval) "
        "cannot overlap under the path condition - race freedom per epoch makes all interleavings equivalent. Unrolling covers the loop "
        "back-edge. After dispatching, the number of barriers executed must not depend on the (symbolic) core id.")
    chk.assumptions = ["un-dispatched ops with memref operands read them on every core; dealloc counts as a write on every core",
                       "loops unrolled to K=2 (the back-edge is covered by iteration k+1 following iteration k); 2 cores for the barrier-count check"]
    cases = []
    n = 260 if quick else 3000
    tries = 0
    while len(cases) < n and tries < n * 20:
        tries += 1
        g = Gen(rnd)
        if tries % 7 == 3:
            g.nview = 3  # no subviews in this family (they would have to be hoisted out of the loops)
            # sibling inner loops (or an inner loop next to a conditional) in one outer loop: dependencies across the
            # outer back edge between operations that share no inner loop
            def leaf():
                return [s for s in g.block(0, rnd.randint(1, 2)) if s[0] != "view"] or [("test", g.newtag())]

            kinds = ["args", "k0_3_2", "k0_2_1", "k0_1_1"]
            inner = [("for", leaf(), rnd.choice(kinds)), ("for", leaf(), rnd.choice(kinds))]
            if rnd.random() < 0.4:
                inner[rnd.randrange(2)] = ("if", rnd.randrange(2), leaf(), leaf() if rnd.random() < 0.5 else None)
            if rnd.random() < 0.4:
                inner.insert(rnd.randrange(3), leaf()[0])
            prog = [s for s in g.block(0, rnd.randint(0, 2)) if s[0] != "view"] + [("for", inner, rnd.choice(["args", "args", "k0_3_2", "k0_2_1"]))] + [s for s in g.block(0, rnd.randint(0, 1)) if s[0] != "view"]
        else:
            prog = g.block(2, rnd.randint(3, 7))
        if not view_scoped(prog):
            continue
        # views must precede their uses: move all top-level view statements to the front
        views = [s for s in prog if s[0] == "view"]
        prog = views + [s for s in prog if s[0] != "view"]
        if len(views) != g.nview and tries % 7 != 3:
            continue
        de = tuple(i for i in range(3) if rnd.random() < 0.3)
        if tries % 7 == 5:
            # multi-block function: producer in the entry block, consumers in the two successor blocks and behind the join
            g.nview = 3  # no new views below (they would be defined in one successor block only)
            flat = lambda n_: [s_ for s_ in g.block(0, n_) if s_[0] != "view"]
            cases.append(([s_ for s_ in prog if s_[0] == "view"] + [s_ for s_ in prog if s_[0] != "view"][:3], de, (rnd.randrange(2), flat(rnd.randint(1, 2)), flat(rnd.randint(0, 2)), flat(rnd.randint(0, 2)))))
            continue
        if tries % 7 == 1 and any(s_[0] == "for" for s_ in prog):
            # the outermost loops written as scf.while
            prog = [("while", s_[1]) if s_[0] == "for" else s_ for s_ in prog]
        cases.append((prog, de))
    chk.add_results("races_and_barrier_counts", pmap(case_prog, cases, chunks=4))
    chk.bounds = dict(programs=len(cases), nesting="<=2 (+ a family with sibling inner loops / conditionals in one outer loop; + a family whose outermost loops are scf.while)", unroll_K=2, buffers="2 arguments + 3 allocations (i32), 1 argument + 2 allocations (i8), <=3 subviews with offsets in {0,4,symbolic 0..4}")
    chk.outside = ["more than 2 loop iterations", "views created inside loops"]
