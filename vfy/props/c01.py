"""C01 - config deduplication never changes what a launch observes."""

from __future__ import annotations

import z3

from .. import accfg_common as ac
from .. import irsym, sym, xshim
from ..harness import replay_pinned, run_case
from ..runner import pmap
from ..sym import eng

LEVEL = "translation_validation"

PATTERNS = ["SimplifyRedundantSetupCalls", "PullSetupOpsOutOfLoops", "MergeSetupOps", "ElideEmptySetupOps",
            "HoistSetupCallsIntoConditionals"]


def dedup(ctx, module, hoist=True, without=()):
    """the real pass; `without` re-runs it with some rewrite patterns removed (only used to name the compiler site
    of a confirmed violation)."""
    from xdsl.pattern_rewriter import GreedyRewritePatternApplier, PatternRewriteWalker

    from snaxc.transforms import accfg_dedup as D

    if not without:
        D.AccfgDeduplicate(hoist=hoist).apply(ctx, module)
        return
    pats = [getattr(D, n)() for n in PATTERNS if n not in without and (hoist or n != "HoistSetupCallsIntoConditionals")]
    PatternRewriteWalker(GreedyRewritePatternApplier(pats), walk_reverse=True).rewrite_module(module)


def build(src, hoist, without=()):
    from xdsl.parser import Parser

    from snaxc.transforms.convert_linalg_to_accfg import TraceStatesPass

    ctx = xshim.make_ctx()
    m1 = Parser(ctx, src).parse_module()
    TraceStatesPass().apply(ctx, m1)
    m2 = m1.clone()
    dedup(ctx, m2, hoist, without)
    return m1, m2


def compare(m1, m2, K, W, name2="dedup"):
    fields = ac.collect_fields(m1)
    args = ac.std_args(W)
    shared = {}
    I1, _ = ac.run_on_machine(m1, args, shared, K, fields, W)
    try:
        I2, _ = ac.run_on_machine(m2, args, shared, K, fields, W)
    except irsym.Undefined as e:
        eng().oblige("ssa:use_before_def", False, dict(error=str(e)[:200]))
        return
    ac.compare_launch_traces(ac.launch_trace(I1.events), ac.launch_trace(I2.events), fields, eng().oblige)
    eng().notes.append(f"trips={I1.loop_trips}")


def situation(prog):
    """structural predicates of the program (for finding signatures)."""
    tags = set()

    def walk(block, in_loop, in_if):
        for s in block:
            if s[0] in ("for", "forc"):
                n = ac.count_cfg(s[2])
                if n >= 2:
                    tags.add("loop_body_with_2+_cfgs")
                elif n == 1:
                    tags.add("loop_body_with_1_cfg")
                if any(x[0] in ("call", "lcall") for x in s[2]):
                    tags.add("call_in_loop")
                if any(x[0] == "if" for x in s[2]):
                    tags.add("if_in_loop")
                if any(x[0] in ("for", "forc") for x in s[2]):
                    tags.add("nested_loop")
                walk(s[2], True, in_if)
            elif s[0] == "if":
                for b in (s[2], s[3] or ()):
                    if any(x[0] in ("call", "lcall") for x in b):
                        tags.add("call_in_if_branch")
                    if any(x[0] in ("for", "forc") for x in b):
                        tags.add("loop_in_if")
                    walk(b, in_loop, True)
    walk(prog, False, False)
    return sorted(tags)


def case_prog(case, K=2, W=32):
    prog, hoist = case
    src = ac.render(prog)
    try:
        m1, m2 = build(src, hoist)
    except Exception as e:
        return dict(rejected=f"{type(e).__name__}: {str(e)[:80]}", case=str(prog)[:300])
    verr = None
    try:
        m2.verify()
    except Exception as e:
        verr = str(e)[:200]

    def fn():
        if verr:
            eng().oblige("verify", False, dict(error=verr))
            return
        compare(m1, m2, K, W)

    def replay(f):
        def again():
            a, b = build(src, hoist)  # re-parse and re-run the real passes
            compare(a, b, max(K, 4), W)
        ok, d = replay_pinned(again, f)
        if ok:
            # name the compiler site: which pattern's removal makes this counterexample disappear
            culprits = []
            for p in PATTERNS:
                def without_p():
                    a, b = build(src, hoist, without=(p,))
                    compare(a, b, max(K, 4), W)
                try:
                    ok2, _ = replay_pinned(without_p, f)
                except Exception:
                    ok2 = True
                if not ok2:
                    culprits.append(p)
            d["culprit_patterns"] = culprits
        d["program"] = src
        d["situation"] = situation(prog)
        return ok, d

    def sig(f, v):
        d = v.get("detail") or {}
        cul = "+".join(d.get("culprit_patterns", [])) if isinstance(d, dict) else "?"
        return f"{f['name']}|site={cul or 'none-single'}"

    return run_case(fn, replay, signature=sig, sample=dict(program=str(prog), hoist=hoist), key=str(case), max_paths=400,
                    timeout_ms=5000)


def run(chk):
    from .. import runner as _runner

    _runner.CASE_TIMEOUT_S = min(_runner.CASE_TIMEOUT_S, 30)  # a pass that does not terminate on an input is a rejected input
    quick = chk.tier == "quick"
    progs, n_exh = ac.program_set(chk.tier, chk.seed)
    K = 2 if quick else 3
    chk.functions = ["snaxc.transforms.convert_linalg_to_accfg.TraceStatesPass (real, produces the original)",
                     "snaxc.transforms.accfg_dedup.AccfgDeduplicate (hoist=True/False)",
                     "snaxc.inference.trace_acc_state.infer_state_of / helpers (executed inside the pass)",
                     "snaxc.inference.helpers.has_accfg_effects (executed inside trace-states; the machine uses its own rule)"]
    chk.explanation = (
        "Translation validation: each generated accfg program (grammar of DESIGN section 2) is run through the real "
        "accfg-trace-states and accfg-dedup; original and deduplicated IR are executed by the symbolic IR interpreter "
        "on one abstract CSR machine on a shared path (all function arguments, loop bounds/steps, branch conditions, "
        "initial register contents and call clobbers symbolic; loops unrolled to K trips). z3 proves per launch that "
        "every field the original had written holds the same value, launch values are equal and the launch/await/call "
        "sequence is identical; a use of an undefined SSA value is a violation. Counterexamples are replayed by "
        "re-parsing, re-running the passes and executing with all model values pinned.")
    chk.assumptions = ["scf.for: step > 0, lb/ub/step in [0, 4096) (no index overflow)", f"loops unrolled to K={K} trips (paths needing more are excluded: unwinding assumptions counted)",
                       "un-annotated func.call replaces every register of every accelerator by a fresh unknown; annotated (effects none) calls clobber nothing",
                       "index width 32 (rv32)"]
    cases = [(p, True) for p in progs] + [(p, False) for p in progs[: n_exh // 2 if quick else n_exh]]
    chk.add_results("dedup_vs_traced", pmap(case_prog, cases, kw=dict(K=K), chunks=4))
    chk.bounds = dict(programs=len(cases), exhaustive_part=n_exh, grammar="DESIGN section 2; exhaustive: 1 accelerator, <=3 (quick) / <=4 statements, depth<=2; sampled (VERIF_SEED): 2 accelerators, <=6/8 statements, depth<=2/3",
                      unroll_K=K, index_width=32)
    chk.outside = ["programs outside the grammar (while loops, multiple blocks, setups of partial field sets in the input)",
                   f"executions with more than {K} iterations of some loop"]
