"""C03 - scheduling preserves the iteration space."""

from __future__ import annotations

import itertools
import random

import numpy as np
import z3

from .. import sym
from ..harness import mval, run_case
from ..runner import pmap
from ..sym import SymInt, eng
from . import sched_common as sc

LEVEL = "other"
MAX_YIELDS = 40


def mk_schedule(maps, bounds):
    from snaxc.ir.dart.access_pattern import Schedule, SchedulePattern

    return Schedule(SchedulePattern(bounds, m) for m in maps)


def mk_template(maps, bounds):
    from snaxc.ir.dart.access_pattern import Template, TemplatePattern

    return Template(TemplatePattern(bounds, m) for m in maps)


def sym_bounds(n):
    bs = [sym.sym(f"B{i}", 1, None) for i in range(n)]
    for b in bs:
        eng().shrink.append(b.z <= 24)
    return bs


def model_bounds(m, n):
    return [max(1, mval(m, f"B{i}", 1)) for i in range(n)]


def replay_multiset(old, new):
    a, b = sc.multiset_concrete(old), sc.multiset_concrete(new)
    if a is None or b is None:
        return False, "box too large to enumerate"
    return a != b, f"old bounds={old[0].bounds} new bounds={new[0].bounds} |old|={len(a)} |new|={len(b)} " \
                   f"first diff={next(((x, y) for x, y in zip(a, b) if x != y), None)}"


# ------------------------------------------------------------------ A: elementary transformations


def case_elementary(case):
    fam, op, arg = case
    name, tmaps, tb, smaps, n, els = fam

    def apply(s):
        if op == "rotate":
            return s.rotate(arg)
        if op == "tile":
            return s.tile_dim(arg[0], arg[1])
        if op == "add_dim":
            return s.add_dim()
        if op == "clear_unused":
            return s.clear_unused_dims()
        if op == "canonicalize":
            with sym.eager():
                return s.canonicalize()
        if op == "tile_rotate_clear":
            return s.tile_dim(arg[0], arg[1]).rotate(n + 1).add_dim().clear_unused_dims()
        raise ValueError(op)

    def pre(B):
        if op in ("tile", "tile_rotate_clear"):
            return B[arg[0]] % arg[1] == 0
        return True

    def fn():
        B = sym_bounds(n)
        c = pre(B)
        if c is not True:
            eng().assume(c.z)
        s = mk_schedule(smaps, B)
        t = apply(s)
        sc.oblige_reindex(op, list(s), list(t), dict(op=op, arg=arg))

    def replay(f):
        B = model_bounds(f["model"], n)
        if pre(B) is False:
            return False, "precondition"
        s = mk_schedule(smaps, B)
        return replay_multiset(list(s), list(apply(s)))

    return run_case(fn, replay, witness=True, signature=lambda f, v: f"{op}:{f['name'].split(':')[-1]}",
                    sample=dict(family=name, op=op, arg=arg), key=str((name, op, arg)))


# ------------------------------------------------------------------ B: scheduler_backtrack


def checks_for(combo, els):
    from snaxc.ir.dart.scheduler import is_memory_flexible_enough, is_pure_output_stationary

    out = []
    if "pos" in combo:
        out.append(is_pure_output_stationary)
    if "mem" in combo:
        out.append(lambda t, s: is_memory_flexible_enough(t, s, els))
    return out


def case_backtrack(case):
    from snaxc.ir.dart.scheduler import scheduler_backtrack

    fam, combo = case
    name, tmaps, tb, smaps, n, els = fam

    def run_sched(B):
        s = mk_schedule(smaps, B)
        t = mk_template(tmaps, tb)
        out = []
        for r in scheduler_backtrack(t, s, extra_checks=checks_for(combo, els)):
            out.append(r)
            if len(out) >= MAX_YIELDS:
                break
        return s, out

    def fn():
        B = sym_bounds(n)
        s, out = run_sched(B)
        eng().notes.append(f"yields={len(out)}")
        for k, r in enumerate(out):
            sc.oblige_reindex(f"yield", list(s), list(r), dict(k=k))
        eng().oblige("explored", True)

    def replay(f):
        B = model_bounds(f["model"], n)
        s, out = run_sched(B)
        for k, r in enumerate(out):
            bad, d = replay_multiset(list(s), list(r))
            if bad:
                return True, f"family={name} checks={combo} B={B} yield#{k}: {d}"
        return False, f"B={B} all {len(out)} yields fine"

    return run_case(fn, replay, witness=True, signature=lambda f, v: "scheduler_backtrack:" + f["name"].split(":")[-1],
                    sample=dict(family=name, extra_checks=combo), key=str((name, combo)), max_paths=3000,
                    timeout_ms=10000)


# ------------------------------------------------------------------ C: the pass (concrete shapes)


def case_pass(case):
    """dart-scheduler pass on a concrete dart.operation: schedule op vs operation op (AutoflowScheduler builds the
    initial schedule).  Bounds concrete here (they come from memref shapes); the oracle is the same T-form query."""
    from xdsl.parser import Parser

    from snaxc.dialects import dart
    from snaxc.ir.dart.access_pattern import Schedule, SchedulePattern
    from snaxc.transforms.dart.dart_scheduler import DartSchedulerPass
    from .. import xshim

    kind, shape = case
    if kind == "multi":
        # several operations in one module (one pass run): functions renamed so that they can live side by side
        src = "\n".join(dart_operation_src(k2, s2).replace("@f(", f"@f{n}(") for n, (k2, s2) in enumerate(shape))
    else:
        src = dart_operation_src(kind, shape)

    def independent(amap, bounds):
        """(A, b) of an access map read off its values at the origin and the unit points (xDSL's AffineMap.eval), and
        whether the map is linear at all (checked on every point of the box, <= 4096 points)."""
        from snaxc.ir.dart.affine_transform import AffineTransform

        n = amap.num_dims
        b0 = np.array(amap.eval([0] * n, []), dtype=int)
        A = np.zeros((len(b0), n), dtype=int)
        for i in range(n):
            A[:, i] = np.array(amap.eval([int(j == i) for j in range(n)], []), dtype=int) - b0
        pts = itertools.islice(itertools.product(*[range(min(int(bd), 16)) for bd in bounds]), 4096)
        linear = all((np.array(amap.eval(list(x), []), dtype=int) == A @ np.array(x, dtype=int) + b0).all() for x in pts)
        return AffineTransform(A, b0), linear

    def run_pass():
        ctx = xshim.make_ctx()
        m = Parser(ctx, src).parse_module()
        ops = [o for o in m.walk() if isinstance(o, dart.OperationOp)]
        befores = []
        nonlinear = []
        for op in ops:
            try:
                bounds = tuple(op.get_static_pattern_bounds())
            except ValueError:
                bounds = None
            pats = []
            for p in op.patterns.data:
                t, lin = independent(p.data, bounds or (4,) * p.data.num_dims)
                if not lin:
                    nonlinear.append(str(p.data))
                pats.append(t)
            if bounds is not None:
                befores.append([SchedulePattern(bounds, t) for t in pats])
        if nonlinear:
            # an access map that is not linear (mod / floordiv somewhere inside) cannot be scheduled by re-indexing
            try:
                DartSchedulerPass().apply(ctx, m)
            except Exception as e:
                return ("refused", f"{type(e).__name__}: {str(e)[:60]}"), nonlinear
            return ("scheduled", [str(p.data) for o in m.walk() if isinstance(o, dart.ScheduleOp) for p in o.patterns.data]), nonlinear
        DartSchedulerPass().apply(ctx, m)
        sos = [o for o in m.walk() if isinstance(o, dart.ScheduleOp)]
        afters = []
        for so in sos:
            nb = tuple(b.value.data for b in so.bounds.data)
            afters.append([SchedulePattern(nb, p.data) for p in so.patterns.data])
        return befores, afters

    def fn():
        befores, afters = run_pass()
        if isinstance(befores, tuple):
            eng().oblige("dart_scheduler_pass:operation_with_a_non_linear_access_map_is_refused", befores[0] == "refused", dict(maps=afters, result=befores[1]))
            return
        eng().oblige("dart_scheduler_pass:one_schedule_per_operation", len(befores) == len(afters), dict(operations=len(befores), schedules=len(afters)))
        for before, after in zip(befores, afters):
            sc.oblige_reindex("dart_scheduler_pass", before, after)

    def replay(f):
        befores, afters = run_pass()
        if isinstance(befores, tuple):
            return befores[0] != "refused", dict(maps=afters, result=befores[1])
        if len(befores) != len(afters):
            return True, dict(operations=len(befores), schedules=len(afters))
        for before, after in zip(befores, afters):
            ok, d = replay_multiset(before, after)
            if ok:
                return ok, d
        return False, {}

    return run_case(fn, replay, witness=True, signature=lambda f, v: "dart_scheduler_pass:" + f["name"].split(":")[-1],
                    sample=dict(kind=kind, shape=shape), key=str(case))


def dart_operation_src(kind, shape):
    if kind == "alu":
        (n,) = shape
        return f"""
func.func @f(%a: memref<{n}xi64>, %b: memref<{n}xi64>, %c: memref<{n}xi64>) {{
  "dart.operation"(%a, %b, %c) <{{accelerator = "snax_alu", patterns = [affine_map<(d0) -> (d0)>, affine_map<(d0) -> (d0)>, affine_map<(d0) -> (d0)>], operandSegmentSizes = array<i32: 2, 1>}}> ({{
  ^bb0(%0: !dart.stream<i64>, %1: !dart.stream<i64>, %2: !dart.stream<i64>):
    %3 = "dart.generic"(%0, %1) <{{library_call = "snax_alu"}}> ({{
    ^bb1(%i0: i64, %i1: i64):
      %r = kernel.add %i0, %i1 : i64, i64 -> i64
      dart.yield %r : i64
    }}) : (!dart.stream<i64>, !dart.stream<i64>) -> !dart.stream<i64>
    dart.yield %3 : !dart.stream<i64>
  }}) : (memref<{n}xi64>, memref<{n}xi64>, memref<{n}xi64>) -> ()
  func.return
}}
"""
    if kind == "alu2d":
        # element-wise add on a 2-D buffer (unit dimensions at either position)
        r, c = shape
        t = f"memref<{r}x{c}xi64>"
        return dart_operation_src("alu", (16,)).replace("affine_map<(d0) -> (d0)>", "affine_map<(d0, d1) -> (d0, d1)>").replace("memref<16xi64>", t)
    if kind == "alu2d_b":
        # 2-D element-wise add whose second input is read with an offset in a dimension that is not tiled
        r, c, pat, tb = shape
        return dart_operation_src("alu2d", (r, c)).replace("affine_map<(d0, d1) -> (d0, d1)>, affine_map<(d0, d1) -> (d0, d1)>, affine_map<(d0, d1) -> (d0, d1)>",
                                                           f"affine_map<(d0, d1) -> (d0, d1)>, affine_map<(d0, d1) -> ({pat})>, affine_map<(d0, d1) -> (d0, d1)>") \
            .replace(f"%b: memref<{r}x{c}xi64>", f"%b: {tb}").replace(f"(memref<{r}x{c}xi64>, memref<{r}x{c}xi64>, memref<{r}x{c}xi64>) -> ()", f"(memref<{r}x{c}xi64>, {tb}, memref<{r}x{c}xi64>) -> ()")
    if kind == "alu_b":
        # second input read through an arbitrary access map (fixed row of a 2-D buffer, offsets, non-linear indices)
        n, pat, tb = shape
        return dart_operation_src("alu", (n,)).replace("affine_map<(d0) -> (d0)>, affine_map<(d0) -> (d0)>, affine_map<(d0) -> (d0)>",
                                                       f"affine_map<(d0) -> (d0)>, affine_map<(d0) -> ({pat})>, affine_map<(d0) -> (d0)>") \
            .replace(f"%b: memref<{n}xi64>", f"%b: {tb}").replace(f"(memref<{n}xi64>, memref<{n}xi64>, memref<{n}xi64>) -> ()", f"(memref<{n}xi64>, {tb}, memref<{n}xi64>) -> ()")
    if kind == "gemmx_a":
        M, N, K, pat, ta = shape
        return dart_operation_src("gemmx", (M, N, K)).replace("affine_map<(d0, d1, d2) -> (d0, d2)>", f"affine_map<(d0, d1, d2) -> ({pat})>") \
            .replace(f"%a: memref<{M}x{K}xi8>", f"%a: {ta}").replace(f"(memref<{M}x{K}xi8>, memref", f"({ta}, memref")
    if kind == "gemmx":
        M, N, K = shape
        return f"""
func.func @f(%a: memref<{M}x{K}xi8>, %b: memref<{K}x{N}xi8>, %c: memref<{M}x{N}xi32>) {{
  "dart.operation"(%a, %b, %c) <{{accelerator = "snax_gemmx", patterns = [affine_map<(d0, d1, d2) -> (d0, d2)>, affine_map<(d0, d1, d2) -> (d2, d1)>, affine_map<(d0, d1, d2) -> (d0, d1)>], operandSegmentSizes = array<i32: 2, 1>}}> ({{
  ^bb0(%0: !dart.stream<i8>, %1: !dart.stream<i8>, %2: !dart.stream<i32>):
    %3 = "dart.generic"(%0, %1) <{{library_call = "snax_gemmx"}}> ({{
    ^bb1(%i0: i8, %i1: i8, %acc: i32):
      %r = kernel.mac %i0, %i1 : i8, i8 -> i32
      dart.yield %r : i32
    }}) : (!dart.stream<i8>, !dart.stream<i8>) -> !dart.stream<i32>
    dart.yield %3 : !dart.stream<i32>
  }}) : (memref<{M}x{K}xi8>, memref<{K}x{N}xi8>, memref<{M}x{N}xi32>) -> ()
  func.return
}}
"""
    raise ValueError(kind)


# ------------------------------------------------------------------ driver


def run(chk):
    from .. import runner as _runner

    _runner.CASE_TIMEOUT_S = min(_runner.CASE_TIMEOUT_S, 40)
    quick = chk.tier == "quick"
    only = getattr(chk, "only", None)
    rnd = random.Random(chk.seed)
    fams = sc.families(chk.tier) + sc.random_families(rnd, 3 if quick else 40)
    chk.functions = [
        "snaxc.ir.dart.access_pattern.SchedulePattern.rotate/tile_dim/add_dim",
        "snaxc.ir.dart.access_pattern.PatternCollection.clear_unused_dims/canonicalize",
        "snaxc.ir.dart.scheduler.scheduler_backtrack (all yields, all extra-check subsets)",
        "snaxc.transforms.dart.dart_scheduler.AutoflowScheduler (concrete shapes)",
        "snaxc.ir.dart.affine_transform.AffineTransform.compose/from_affine_map (executed)",
    ]
    chk.explanation = (
        "The real schedule transformations and the real backtracking scheduler run with symbolic, unbounded "
        "iteration bounds (z3 int proxies); access matrices and tile sizes are concrete (numpy/SVD need numbers). "
        "For every result on every path the solver proves that it is a bijective re-indexing of the original "
        "iteration box: each new dimension is owned by one old dimension with an integer weight read off the "
        "matrices (all operands at once), and per old dimension range, injectivity and cardinality of "
        "x_i = sum w_j x'_j are unsat-queries over the symbolic bounds under the path condition. Counterexamples "
        "are replayed by enumerating both iteration boxes concretely (model shrunk to bounds <= 24).")
    chk.assumptions = [
        "tile_dim is called with a tile size dividing the bound (the scheduler's guard); checked as precondition in "
        "the elementary section and exercised unguarded through scheduler_backtrack",
        "at most %d yielded schedules per path are checked" % MAX_YIELDS,
        "access matrices concrete: real accelerator templates + generated family",
    ]
    cases = []
    for fam in fams:
        n = fam[4]
        for d in range(0, n + 1):  # 0: nothing to rotate, the identity
            cases.append((fam, "rotate", d))
        for d in range(n):
            for t in (2, 3, 8) if quick else (2, 3, 4, 8, 16):
                cases.append((fam, "tile", (d, t)))
        cases += [(fam, "add_dim", None), (fam, "clear_unused", None), (fam, "canonicalize", None),
                  (fam, "tile_rotate_clear", (0, 4))]
    if only in (None, "elem"):
        chk.add_results("elementary_transformations", pmap(case_elementary, cases, chunks=2))
    combos = [(), ("pos",), ("mem",), ("pos", "mem")]
    cases = [(fam, c) for fam in fams for c in combos]
    if only in (None, "backtrack"):
        chk.add_results("scheduler_backtrack", pmap(case_backtrack, cases))
    cases = [("alu", (n,)) for n in ((16, 64, 4, 12) if quick else (4, 8, 12, 16, 20, 64, 128, 1000))]
    cases += [("gemmx", s) for s in (((16, 16, 16), (8, 8, 8), (32, 8, 24), (16, 24, 8)) if quick else
                                     [(a, b, c) for a in (8, 16, 40) for b in (8, 24) for c in (8, 16, 64)])]
    # several operations with equal access maps but different shapes in one module
    cases.append(("multi", (("gemmx", (16, 16, 16)), ("gemmx", (24, 8, 16)), ("gemmx", (16, 16, 16)), ("gemmx", (8, 32, 8)))))
    cases.append(("multi", (("alu", (16,)), ("alu", (64,)), ("gemmx", (8, 8, 8)), ("alu", (4,)))))
    # operands read at a fixed position / with offsets (constant rows of the access map), and non-linear access maps
    # (which no re-indexing can express: to be refused)
    for n in (16, 64):
        cases.append(("alu_b", (n, "3, d0", f"memref<4x{n}xi64>")))
        cases.append(("alu_b", (n, "d0, 2", f"memref<{n}x4xi64>")))
        cases.append(("alu_b", (n, "d0 + 3", f"memref<{n + 3}xi64>")))
        cases.append(("alu_b", (n, "0, d0", f"memref<1x{n}xi64>")))
        cases.append(("alu_b", (n, "d0 mod 4 + 2", "memref<6xi64>")))
        cases.append(("alu_b", (n, "d0 floordiv 2", f"memref<{n // 2}xi64>")))
        cases.append(("alu_b", (n, "(d0 floordiv 4) * 4 + d0 mod 4", f"memref<{n}xi64>")))
        cases.append(("alu_b", (n, "d0 mod 8", "memref<8xi64>")))
        cases.append(("alu_b", (n, "d0 ceildiv 2", f"memref<{n // 2 + 1}xi64>")))
        cases.append(("alu_b", (n, "(d0 ceildiv 4) * 2 + 1", f"memref<{n}xi64>")))
    # operations that differ only in WHERE their unit dimension sits, one after the other in one module
    cases.append(("multi", (("alu2d", (1, 16)), ("alu2d", (16, 1)), ("alu2d", (1, 16)))))
    cases.append(("multi", (("alu2d", (16, 1)), ("alu2d", (1, 16)), ("alu2d", (4, 4)), ("alu2d", (16, 1)))))
    for rc in ((1, 16), (16, 1), (4, 8), (1, 1)):
        cases.append(("alu2d", rc))
    cases.append(("alu2d_b", (6, 16, "d0 + 1, d1", "memref<7x16xi64>")))
    cases.append(("alu2d_b", (6, 16, "d0, d1 + 4", "memref<6x20xi64>")))
    cases.append(("alu2d_b", (3, 8, "d0 + 2, d1 + 1", "memref<5x9xi64>")))
    cases.append(("gemmx_a", (16, 16, 16, "2, d0, d2", "memref<4x16x16xi8>")))
    cases.append(("gemmx_a", (16, 16, 16, "d0, d2, 1", "memref<16x16x2xi8>")))
    cases.append(("gemmx_a", (16, 16, 16, "d0 + 1, d2", "memref<17x16xi8>")))
    cases.append(("gemmx_a", (16, 16, 16, "d0, d2 mod 8 + 8", "memref<16x16xi8>")))
    if only in (None, "pass"):
        chk.add_results("dart_scheduler_pass", pmap(case_pass, cases))
    chk.bounds = dict(families=[f[0] for f in fams], bounds="symbolic >= 1, unbounded", tile_sizes="2,3,8 / 2,3,4,8,16",
                      max_yields_per_path=MAX_YIELDS, pass_shapes="concrete, listed in samples")
    chk.outside = ["symbolic access-matrix entries", "more than %d yields per path" % MAX_YIELDS,
                   "templates/schedules outside the listed families"]
