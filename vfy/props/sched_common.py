"""Shared by C03 and C16: schedule/template families and the re-indexing (T-form) oracle."""

from __future__ import annotations

import itertools
from fractions import Fraction

import numpy as np
import z3

from .. import sym
from ..sym import SymInt, eng


def stack(pats):
    return np.vstack([np.array(p.pattern.A, dtype=int) for p in pats])


def zb(b):
    return sym.zint(b)


def reindex_conditions(old, new, max_candidates=64):
    """old/new: sequences of patterns (same operands).  Returns (list of (name, z3 cond)) such that all conds
    valid under the path condition  ==>  new visits exactly the multiset of operand-index tuples of old.
    Form: every new dim j is owned by one old dim i with a positive integer weight w (column_j(A') = w*column_i(A)
    for all operands) or is a multiplicity-only dim (zero column); per old dim the owned new dims form a bijection
    x_i = sum w_j x'_j : box -> [0,B_i)  (range, injectivity and cardinality are queries over the symbolic bounds).
    Ambiguous ownership (proportional columns) is resolved by trying every assignment: the result is a list of
    alternatives; the obligation holds if ONE alternative is valid."""
    A, A2 = stack(old), stack(new)
    B, B2 = list(old[0].bounds), list(new[0].bounds)
    n, n2 = A.shape[1], A2.shape[1]
    conds_fixed = []
    for po, pn in zip(old, new):
        conds_fixed.append(("offset_vector", z3.BoolVal(list(map(int, po.pattern.b)) == list(map(int, pn.pattern.b)))))
        conds_fixed.append(("same_bounds_all_operands", z3.And([zb(a) == zb(b) for a, b in zip(pn.bounds, B2)]
                                                               + [z3.BoolVal(len(pn.bounds) == n2)])))
    zero_old = [i for i in range(n) if not A[:, i].any()]
    zero_new = [j for j in range(n2) if not A2[:, j].any()]
    owners = []
    for j in range(n2):
        if j in zero_new:
            owners.append([None])
            continue
        cand = []
        for i in range(n):
            if i in zero_old:
                continue
            col, col2 = A[:, i], A2[:, j]
            nz = np.nonzero(col)[0]
            w = Fraction(int(col2[nz[0]]), int(col[nz[0]]))
            if w > 0 and w.denominator == 1 and (col * int(w) == col2).all():
                cand.append((i, int(w)))
        owners.append(cand)  # empty: no owner -> only legal if bound is 1
    alts = []
    spaces = [c if c else [("unit", 0)] for c in owners]
    total = 1
    for c in spaces:
        total *= len(c)
    if total > max_candidates:
        return None
    for choice in itertools.product(*spaces):
        conds = list(conds_fixed)
        # multiplicity dims
        pz = z3.IntVal(1)
        for i in zero_old:
            pz = pz * zb(B[i])
        pz2 = z3.IntVal(1)
        for j in zero_new:
            pz2 = pz2 * zb(B2[j])
        conds.append(("multiplicity", pz == pz2))
        for j, c in enumerate(choice):
            if c is not None and c[0] == "unit":
                conds.append((f"unowned_dim_is_unit", zb(B2[j]) == 1))
        for i in range(n):
            if i in zero_old:
                continue
            J = [(j, c[1]) for j, c in enumerate(choice) if c is not None and c[0] == i]
            xs = [z3.Int(f"xp{j}") for j, _ in J]
            ys = [z3.Int(f"yp{j}") for j, _ in J]
            inbox = lambda v: z3.And([z3.And(a >= 0, a < zb(B2[j])) for a, (j, _) in zip(v, J)] or [z3.BoolVal(True)])
            img = lambda v: sum((a * w for a, (_, w) in zip(v, J)), z3.IntVal(0))
            conds.append((f"range", z3.Implies(inbox(xs), z3.And(img(xs) >= 0, img(xs) < zb(B[i])))))
            if J:
                conds.append((f"injective", z3.Implies(z3.And(inbox(xs), inbox(ys), img(xs) == img(ys)),
                                                       z3.And([a == b for a, b in zip(xs, ys)]))))
            card = z3.IntVal(1)
            for j, _ in J:
                card = card * zb(B2[j])
            conds.append((f"cardinality", card == zb(B[i])))
        alts.append(conds)
    return alts


def oblige_reindex(name, old, new, info=None):
    """One obligation: some ownership alternative is valid.  With a unique alternative the individual conditions are
    obliged separately (better diagnostics)."""
    alts = reindex_conditions(old, new)
    E = eng()
    if alts is None:
        E.stats.inconclusive += 1
        return
    if len(alts) == 1:
        for nm, c in alts[0]:
            E.oblige(f"{name}:{nm}", c, info)
        return
    # several alternatives: valid iff one of them is valid under pc (each tried by its own unsat query)
    for conds in alts:
        r = E.sat(z3.Not(z3.And([c for _, c in conds])))
        if r == "unsat":
            E.oblige(f"{name}:alternative", True, info)
            return
    E.oblige(f"{name}:no_valid_reindexing", z3.And([c for _, c in alts[0]]), info)


def multiset_concrete(pats, limit=200000):
    """ground truth for replays: sorted list of operand-index tuples over the whole box (concrete bounds)."""
    B = [int(b) for b in pats[0].bounds]
    tot = int(np.prod(B)) if B else 1
    if tot > limit:
        return None
    out = []
    for x in itertools.product(*[range(b) for b in B]):
        xv = np.array(x, dtype=int)
        out.append(tuple(tuple(int(v) for v in (np.array(p.pattern.A, dtype=int) @ xv + np.array(p.pattern.b, dtype=int))) for p in pats))
    out.sort()
    return out


# ------------------------------------------------------------------ exact linear algebra (solver oracle)


def rowspace_contains(Bm, v):
    """is vector v a rational combination of the rows of Bm?  decided by z3 over reals."""
    Bm = np.array(Bm, dtype=int)
    if Bm.shape[0] == 0:
        return not np.any(v)
    s = z3.Solver()
    cs = [z3.Real(f"c{i}") for i in range(Bm.shape[0])]
    for col in range(Bm.shape[1]):
        s.add(sum((cs[i] * int(Bm[i, col]) for i in range(Bm.shape[0])), z3.RealVal(0)) == int(v[col]))
    return str(s.check()) == "sat"


def same_rowspace(A, Bm):
    A, Bm = np.array(A, dtype=int), np.array(Bm, dtype=int)
    if A.shape[1] != Bm.shape[1]:
        return False
    return all(rowspace_contains(Bm, r) for r in A) and all(rowspace_contains(A, r) for r in Bm)


# ------------------------------------------------------------------ families


def maps_matmul():
    from xdsl.ir.affine import AffineDimExpr, AffineMap

    m, n, k = (AffineDimExpr(i) for i in range(3))
    return [AffineMap(3, 0, (m, k)), AffineMap(3, 0, (k, n)), AffineMap(3, 0, (m, n))]


def random_families(rnd, n):
    """seeded families: the matmul / element-wise templates with schedule maps that permute the iteration dimensions and
    add batch dimensions (indexing every operand) and repetition dimensions (indexing none) at random positions."""
    from xdsl.ir.affine import AffineDimExpr, AffineMap

    out = []
    for k in range(n):
        kind = rnd.choice(["matmul", "matmul", "ew1", "ew2"])
        extra = rnd.choice([0, 0, 1, 1, 2])
        if kind == "matmul":
            base = 3
            tpl, tb, el = maps_matmul(), rnd.choice([(8, 8, 8), (4, 2, None), (None, 8, 8), (2, 2, 2), (6, 8, 8), (3, 3, 5)]), (1, 1, 4)
        elif kind == "ew1":
            base = rnd.choice([1, 2, 3])
            d0 = AffineDimExpr(0)
            tpl, tb, el = [AffineMap(1, 0, (d0,))] * 3, (rnd.choice([4, 16, 6]),), (8, 8, 8)
        else:
            base = 2
            d0, d1 = AffineDimExpr(0), AffineDimExpr(1)
            tpl, tb, el = [AffineMap(2, 0, (d0, d1))] * 2, rnd.choice([(8, 8), (4, None)]), (1, 1)
        nd = base + extra
        pos = list(range(nd))
        rnd.shuffle(pos)
        core, extras = pos[:base], pos[base:]
        batch = [e for e in extras if rnd.random() < 0.5]  # the other extras are pure repetition
        d = [AffineDimExpr(i) for i in range(nd)]
        b = tuple(d[e] for e in sorted(batch))
        if kind == "matmul":
            m_, n_, k_ = (d[c] for c in core)
            maps = [AffineMap(nd, 0, b + (m_, k_)), AffineMap(nd, 0, b + (k_, n_)), AffineMap(nd, 0, b + (m_, n_))]
        elif kind == "ew1":
            maps = [AffineMap(nd, 0, b + tuple(d[c] for c in core))] * 3
        else:
            maps = [AffineMap(nd, 0, b + tuple(d[c] for c in core)), AffineMap(nd, 0, b + tuple(d[c] for c in (reversed(core) if rnd.random() < 0.5 else core)))]
        out.append((f"random_{kind}_{k}_dims{nd}", tpl, tb, maps, nd, el))
    return out


def families(tier):
    """(name, template_maps, template_bounds, schedule_maps, n_sched_dims, element_sizes)"""
    from xdsl.ir.affine import AffineDimExpr, AffineMap

    d = [AffineDimExpr(i) for i in range(6)]
    out = []
    mm = maps_matmul()
    out.append(("gemmx_matmul", mm, (8, 8, 8), mm, 3, (1, 1, 4)))
    out.append(("gemmx_gemm4", mm + [mm[-1]], (8, 8, 8), mm + [mm[-1]], 3, (1, 1, 4, 4)))
    out.append(("matmul_tpl_4_2_unbounded", mm, (4, 2, None), mm, 3, (1, 1, 4)))
    out.append(("matmul_tpl_none_8_8", mm, (None, 8, 8), mm, 3, (1, 1, 4)))
    # template bounds that are not powers of two
    out.append(("matmul_tpl_6_8_8", mm, (6, 8, 8), mm, 3, (1, 1, 4)))
    out.append(("matmul_tpl_3_5_unbounded", mm, (3, 5, None), mm, 3, (1, 1, 4)))
    ew = [AffineMap(1, 0, (d[0],))] * 3
    out.append(("alu_1d", ew, (4,), ew, 1, (8, 8, 8)))
    ew2 = [AffineMap(2, 0, (d[0], d[1]))] * 3
    out.append(("alu_2d_on_1d_template", ew, (4,), ew2, 2, (8, 8, 8)))
    x2 = [AffineMap(1, 0, (d[0],))] * 2
    out.append(("xdma_ext_16", x2, (16,), [AffineMap(2, 0, (d[0], d[1]))] * 2, 2, (1, 1)))
    # batched matmul on the matmul template: (b,m,n,k)
    bm = [AffineMap(4, 0, (d[0], d[1], d[3])), AffineMap(4, 0, (d[0], d[3], d[2])), AffineMap(4, 0, (d[0], d[1], d[2]))]
    out.append(("batched_matmul", mm, (8, 8, 8), bm, 4, (1, 1, 4)))
    # broadcast operand (bias over n only) as in gemm with vector bias
    bc = mm + [AffineMap(3, 0, (d[1],))]
    out.append(("matmul_bias_broadcast", mm + [AffineMap(3, 0, (d[1],))], (8, 8, 8), bc, 3, (1, 1, 4, 4)))
    # dimensions that no operand indexes (pure repetition): multiplicity must be preserved
    rep = [AffineMap(3, 0, (d[2],))] * 2
    out.append(("repeat_dims_1d", x2, (4,), rep, 3, (8, 8)))
    rmm = [AffineMap(4, 0, (d[1], d[3])), AffineMap(4, 0, (d[3], d[2])), AffineMap(4, 0, (d[1], d[2]))]
    out.append(("matmul_with_repeat_dim", mm, (8, 8, 8), rmm, 4, (1, 1, 4)))
    if tier != "quick":
        # conv-like: out(oh, c) += in(oh + kh, c') ... 1D conv  (oh, kh, c)
        conv_s = [AffineMap(3, 0, (d[0] + d[1], d[2])), AffineMap(3, 0, (d[1], d[2])), AffineMap(3, 0, (d[0],))]
        conv_t = [AffineMap(2, 0, (d[0], d[1])), AffineMap(2, 0, (d[0] * 0, d[1])), AffineMap(2, 0, (d[0],))]
        out.append(("conv1d_like", conv_t, (4, 4), conv_s, 3, (1, 1, 4)))
        out.append(("matmul_tpl_2_2_2", mm, (2, 2, 2), mm, 3, (2, 2, 4)))
        out.append(("matmul_tpl_8_8_none", mm, (8, 8, None), mm, 3, (1, 1, 4)))
        tr = [AffineMap(2, 0, (d[0], d[1])), AffineMap(2, 0, (d[1], d[0]))]
        out.append(("transpose_2d", tr, (8, 8), tr, 2, (1, 1)))
        out.append(("transpose_2d_tpl_4_none", tr, (4, None), tr, 2, (4, 4)))
    return out
