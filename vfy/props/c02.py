"""C02 - streamer address streams equal the scheduled element stream."""

from __future__ import annotations

import itertools
import random
import warnings

import numpy as np
import z3

from .. import irsym, sym, xshim
from ..harness import mval, replay_pinned, run_case
from ..runner import pmap
from ..sym import SymInt, eng
from .c10 import Lambda

LEVEL = "other"


# ------------------------------------------------------------------ reference layout semantics (bytes, incl. offset)


def layout_ref(mt):
    """returns f(idx list of z3 Int) -> byte offset relative to the ALIGNED pointer, by MLIR / TSL semantics."""
    from xdsl.dialects.builtin import NoneAttr, StridedLayoutAttr

    from snaxc.dialects.tsl import TiledStridedLayoutAttr

    el = mt.element_type.size
    shape = list(mt.get_shape())
    lay = mt.layout
    if isinstance(lay, NoneAttr):
        strides = [int(np.prod(shape[i + 1:])) for i in range(len(shape))]
        return lambda idx: sum((i * s for i, s in zip(idx, strides)), z3.IntVal(0)) * el, dict(kind="identity", offset=0)
    if isinstance(lay, StridedLayoutAttr):
        strides = [s.data for s in lay.strides.data]
        off = lay.offset.data if not isinstance(lay.offset, NoneAttr) else 0
        if any(s is None for s in strides) or off is None:
            return None, dict(kind="dynamic")
        return lambda idx: (sum((i * s for i, s in zip(idx, strides)), z3.IntVal(0)) + off) * el, dict(kind="strided", offset=off)
    if isinstance(lay, TiledStridedLayoutAttr):
        t = lay.data
        bounds = [[s.bound for s in ts.strides] for ts in t.tstrides]
        steps = [[s.step for s in ts.strides] for ts in t.tstrides]
        if any(b is None for bs in bounds for b in bs) or any(s is None for ss in steps for s in ss) or t.offset is None:
            return None, dict(kind="dynamic")
        off = t.offset
        return lambda idx: (Lambda(bounds, steps, idx) + off) * el, dict(kind="tsl", offset=off, depth=max(len(b) for b in bounds))
    return None, dict(kind=str(type(lay)))


# ------------------------------------------------------------------ program sources


def alu_src(shape, layouts):
    n = len(shape)
    dims = ", ".join(f"d{i}" for i in range(n))
    amap = f"affine_map<({dims}) -> ({dims})>"
    shp = "x".join(str(s) for s in shape)
    tys = [f"memref<{shp}xi64{', ' + l if l else ''}>" for l in layouts]
    return f"""
func.func @f(%a : {tys[0]}, %b : {tys[1]}, %c : {tys[2]}) {{
  "dart.operation"(%a, %b, %c) <{{patterns = [{amap}, {amap}, {amap}], accelerator = "snax_alu", operandSegmentSizes = array<i32: 2, 1>}}> ({{
  ^bb0(%0 : !dart.stream<i64>, %1 : !dart.stream<i64>, %2 : !dart.stream<i64>):
    %3 = "dart.generic"(%0, %1) <{{library_call = "snax_alu"}}> ({{
    ^bb1(%x : i64, %y : i64, %z : i64):
      %4 = kernel.add %x, %y : i64, i64 -> i64
      dart.yield %4 : i64
    }}) : (!dart.stream<i64>, !dart.stream<i64>) -> !dart.stream<i64>
    dart.yield %3 : !dart.stream<i64>
  }}) : ({tys[0]}, {tys[1]}, {tys[2]}) -> ()
  func.return
}}
"""


def gemmx_src(M, N, K, i8out, lays):
    out_t = "i8" if i8out else "i32"
    ta = f"memref<{M}x{K}xi8{', ' + lays[0] if lays[0] else ''}>"
    gram = lays[1] == "gram"  # D = X * X^T: the same buffer is both operands, read through two different access maps
    tb = ta if gram else f"memref<{K}x{N}xi8{', ' + lays[1] if lays[1] else ''}>"
    tc = f"memref<{M}x{N}x{out_t}{', ' + lays[2] if lays[2] else ''}>"
    if i8out:
        resc = """
    %r = "dart.generic"(%g) <{library_call = "snax_gemmx"}> ({
    ^bb2(%x : i32, %y : i8):
      %q = kernel.rescale %x {input_zp = 0 : i32, output_zp = 0 : i32, multiplier = array<i32: 1140768826>, shift = array<i32: 38>, max_int = 127 : i32, min_int = -128 : i32, double_round = true} : (i32) -> i8
      dart.yield %q : i8
    }) : (!dart.stream<i32>) -> !dart.stream<i8>
    dart.yield %r : !dart.stream<i8>"""
    else:
        resc = "\n    dart.yield %g : !dart.stream<i32>"
    return f"""
func.func @f(%A : {ta}, %B : {tb}, %C : {tc}) {{
  %z = arith.constant 0 : i32
  "dart.operation"(%A, {'%A' if gram else '%B'}, %C) <{{patterns = [affine_map<(d0, d1, d2) -> (d0, d2)>, affine_map<(d0, d1, d2) -> {'(d1, d2)' if gram else '(d2, d1)'}>, affine_map<(d0, d1, d2) -> (d0, d1)>], accelerator = "snax_gemmx", operandSegmentSizes = array<i32: 2, 1>}}> ({{
  ^bb0(%s0 : !dart.stream<i8>, %s1 : !dart.stream<i8>, %s2 : !dart.stream<{out_t}>):
    %g = "dart.generic"(%s0, %s1, %z, %z) <{{library_call = "snax_gemmx"}}> ({{
    ^bb1(%a : i8, %b : i8, %za : i32, %zb : i32, %acc : i32):
      %m = kernel.qmac %a, %b zp_lhs : %za zp_rhs : %zb : i8, i8, i32, i32 -> i32
      dart.yield %m : i32
    }}) : (!dart.stream<i8>, !dart.stream<i8>, i32, i32) -> !dart.stream<i32>{resc}
  }}) : ({ta}, {tb}, {tc}) -> ()
  func.return
}}
"""


def bgemmx_src(Bt, M, N, K, lays):
    """batched matmul D[b] = A[b] * B[b] on snax_gemmx: a fourth loop around the three of a matmul; with operand layouts
    whose loops do not merge, B / D need more temporal loops than their streamers have."""
    ta = f"memref<{Bt}x{M}x{K}xi8{', ' + lays[0] if lays[0] else ''}>"
    tb = f"memref<{Bt}x{K}x{N}xi8{', ' + lays[1] if lays[1] else ''}>"
    tc = f"memref<{Bt}x{M}x{N}xi32{', ' + lays[2] if lays[2] else ''}>"
    return f"""
func.func @f(%A : {ta}, %B : {tb}, %C : {tc}) {{
  %z = arith.constant 0 : i32
  "dart.operation"(%A, %B, %C) <{{patterns = [affine_map<(d0, d1, d2, d3) -> (d0, d1, d3)>, affine_map<(d0, d1, d2, d3) -> (d0, d3, d2)>, affine_map<(d0, d1, d2, d3) -> (d0, d1, d2)>], accelerator = "snax_gemmx", operandSegmentSizes = array<i32: 2, 1>}}> ({{
  ^bb0(%s0 : !dart.stream<i8>, %s1 : !dart.stream<i8>, %s2 : !dart.stream<i32>):
    %g = "dart.generic"(%s0, %s1, %z, %z) <{{library_call = "snax_gemmx"}}> ({{
    ^bb1(%a : i8, %b : i8, %za : i32, %zb : i32, %acc : i32):
      %m = kernel.qmac %a, %b zp_lhs : %za zp_rhs : %zb : i8, i8, i32, i32 -> i32
      dart.yield %m : i32
    }}) : (!dart.stream<i8>, !dart.stream<i8>, i32, i32) -> !dart.stream<i32>
    dart.yield %g : !dart.stream<i32>
  }}) : ({ta}, {tb}, {tc}) -> ()
  func.return
}}
"""


def tiles_src(which):
    """16x16x16 matmul on tiles (memref.subview with run-time offsets) of larger tiled-strided buffers; `which`: which
    of the offsets (A rows, B columns, D rows, D columns) are run-time values, the others are 0."""
    LA, LB, LD = "#tsl.tsl<[4, 8] -> (128, 8), [2, 8] -> (64, 1)>", "#tsl.tsl<[2, 8] -> (64, 1), [4, 8] -> (128, 8)>", "#tsl.tsl<[4, 8] -> (256, 8), [4, 8] -> (64, 1)>"
    LAs, LBs, LDs = "#tsl.tsl<[2, 8] -> (128, 8), [2, 8] -> (64, 1)>", "#tsl.tsl<[2, 8] -> (64, 1), [2, 8] -> (128, 8)>", "#tsl.tsl<[2, 8] -> (256, 8), [2, 8] -> (64, 1)>"
    TA, TB, TD = f"memref<32x16xi8, {LA}>", f"memref<16x32xi8, {LB}>", f"memref<32x32xi32, {LD}>"
    TAs, TBs, TDs = f"memref<16x16xi8, {LAs}>", f"memref<16x16xi8, {LBs}>", f"memref<16x16xi32, {LDs}>"
    o = lambda k, v: v if k in which else "0"
    return f"""
func.func @f(%A : {TA}, %B : {TB}, %D : {TD}, %i : index, %j : index) {{
  %z = arith.constant 0 : i32
  %a = memref.subview %A[{o("ai", "%i")}, 0] [16, 16] [1, 1] : {TA} to {TAs}
  %b = memref.subview %B[0, {o("bj", "%j")}] [16, 16] [1, 1] : {TB} to {TBs}
  %d = memref.subview %D[{o("di", "%i")}, {o("dj", "%j")}] [16, 16] [1, 1] : {TD} to {TDs}
  "dart.operation"(%a, %b, %d) <{{patterns = [affine_map<(d0, d1, d2) -> (d0, d2)>, affine_map<(d0, d1, d2) -> (d2, d1)>, affine_map<(d0, d1, d2) -> (d0, d1)>], accelerator = "snax_gemmx", operandSegmentSizes = array<i32: 2, 1>}}> ({{
  ^bb0(%s0 : !dart.stream<i8>, %s1 : !dart.stream<i8>, %s2 : !dart.stream<i32>):
    %g = "dart.generic"(%s0, %s1, %z, %z) <{{library_call = "snax_gemmx"}}> ({{
    ^bb1(%p : i8, %q : i8, %za : i32, %zb : i32, %acc : i32):
      %m = kernel.qmac %p, %q zp_lhs : %za zp_rhs : %zb : i8, i8, i32, i32 -> i32
      dart.yield %m : i32
    }}) : (!dart.stream<i8>, !dart.stream<i8>, i32, i32) -> !dart.stream<i32>
    dart.yield %g : !dart.stream<i32>
  }}) : ({TAs}, {TBs}, {TDs}) -> ()
  func.return
}}
"""


def tile_pointers(m, main):
    """For every stream whose pointer is taken from a tile view (memref.subview): (stream, pointer after
    convert-memref-to-arith, expected pointer = aligned pointer of the viewed buffer + byte position of the view's first
    element in that buffer's layout)."""
    from xdsl.dialects import memref

    from snaxc.dialects import snax_stream

    R = [o for o in m.walk() if isinstance(o, snax_stream.StreamingRegionOp)][0]
    chains = {}
    for k, o in enumerate(R.operands):
        if hasattr(o, "owner") and getattr(o.owner, "name", "") == "memref.extract_aligned_pointer_as_index":
            v, chain = o.owner.source, []
            while isinstance(v.owner, memref.SubviewOp):
                sv = v.owner
                dyn = iter(sv.offsets)
                chain.append((sv.source, [next(dyn) if so < 0 else so for so in sv.static_offsets.get_values()]))
                v = sv.source
            if chain:
                chains[k] = (v, chain)  # root buffer, views from the innermost outwards
    xshim.apply_passes(m, "convert-memref-to-arith", main)
    f0 = irsym.module_funcs(m)[0]
    I = irsym.Interp(intmode=True)
    bases, views, got = {}, {}, {}

    def root_of(v):
        while v in views:
            v = views[v]
        return v

    def h_subview(I, op):
        views[op.result] = op.source
        I.set(op.result, irsym.Opaque("view"))

    def h_ptr(I, op):
        I.set(op.results[0], bases.setdefault(root_of(op.source), z3.Int(f"base{len(bases)}")))  # a view shares the aligned pointer of its source

    def h_region(I, op):
        for k, o in enumerate(op.operands):
            got[k] = I.get(o)

    I.handlers.update({"memref.subview": h_subview, "memref.extract_aligned_pointer_as_index": h_ptr, "snax_stream.streaming_region": h_region})
    args, offvars = [], []
    for a in f0.body.blocks[0].args:
        if a.type.name == "index":
            offvars.append(z3.Int(f"off_{a.name_hint or len(args)}"))
            args.append(offvars[-1])
        else:
            args.append(irsym.Opaque("memref"))
    I.run_func(f0, args)
    out = []
    for k, (root, chain) in chains.items():
        expected = bases.setdefault(root, z3.Int(f"base{len(bases)}"))
        ok, shown = True, []
        for parent, offs in chain:
            ref, _ = layout_ref(parent.type)
            if ref is None:
                ok = False
                break
            ov = [z3.IntVal(o) if isinstance(o, int) else I.get(o) for o in offs]
            shown.append([str(o) for o in ov])
            expected = expected + ref(ov) - ref([z3.IntVal(0)] * len(ov))
        if ok and k in got:
            out.append((k, got[k], expected, shown))
    return out, offvars


def gemm4_src(ta, tb, tc, td):
    """D = A*B + C on snax_gemmx (four operands, i32 output)"""
    return f"""
func.func @f(%A : {ta}, %B : {tb}, %C : {tc}, %D : {td}) {{
  %z = arith.constant 0 : i32
  "dart.operation"(%A, %B, %C, %D) <{{patterns = [affine_map<(d0, d1, d2) -> (d0, d2)>, affine_map<(d0, d1, d2) -> (d2, d1)>, affine_map<(d0, d1, d2) -> (d0, d1)>, affine_map<(d0, d1, d2) -> (d0, d1)>], accelerator = "snax_gemmx", operandSegmentSizes = array<i32: 3, 1>}}> ({{
  ^bb0(%s0 : !dart.stream<i8>, %s1 : !dart.stream<i8>, %s2 : !dart.stream<i32>, %s3 : !dart.stream<i32>):
    %g = "dart.generic"(%s0, %s1, %z, %z) <{{library_call = "snax_gemmx"}}> ({{
    ^bb1(%a : i8, %b : i8, %za : i32, %zb : i32, %acc : i32):
      %m = kernel.qmac %a, %b zp_lhs : %za zp_rhs : %zb : i8, i8, i32, i32 -> i32
      dart.yield %m : i32
    }}) : (!dart.stream<i8>, !dart.stream<i8>, i32, i32) -> !dart.stream<i32>
    %h = "dart.generic"(%g, %s2) <{{library_call = "snax_gemmx"}}> ({{
    ^bb2(%p : i32, %q : i32, %o : i32):
      %r = kernel.add %p, %q : i32, i32 -> i32
      dart.yield %r : i32
    }}) : (!dart.stream<i32>, !dart.stream<i32>) -> !dart.stream<i32>
    dart.yield %h : !dart.stream<i32>
  }}) : ({ta}, {tb}, {tc}, {td}) -> ()
  func.return
}}
"""


def xdma_add_src(n, out_layout=None):
    shp = "x".join(str(v) for v in (n if isinstance(n, tuple) else (n,)))
    rank = len(n) if isinstance(n, tuple) else 1
    t = f"memref<{shp}xi32>"
    tc = f"memref<{shp}xi32, {out_layout}>" if out_layout else t
    dims = ", ".join(f"d{i}" for i in range(rank))
    amap = f"affine_map<({dims}) -> ({dims})>"
    return f"""
func.func @f(%A : {t}, %B : {t}, %C : {tc}) {{
  "dart.operation"(%A, %B, %C) <{{patterns = [{amap}, {amap}, {amap}], accelerator = "snax_xdma", operandSegmentSizes = array<i32: 2, 1>}}> ({{
  ^bb0(%s0 : !dart.stream<i32>, %s1 : !dart.stream<i32>, %s2 : !dart.stream<i32>):
    %g = "dart.generic"(%s0, %s1) <{{library_call = "snax_xdma"}}> ({{
    ^bb1(%a : i32, %b : i32, %acc : i32):
      %m = kernel.add %a, %b : i32, i32 -> i32
      dart.yield %m : i32
    }}) : (!dart.stream<i32>, !dart.stream<i32>) -> !dart.stream<i32>
    dart.yield %g : !dart.stream<i32>
  }}) : ({t}, {t}, {tc}) -> ()
  func.return
}}
"""


def direct_schedule_src(TA, TB, TD, mtiles):
    """GEMM given directly as a dart.schedule; the M loop is tiled `mtiles` times (2 or 3 levels incl. the array)."""
    if mtiles == 3:
        mexpr, nd = "d1 * 16 + d2 * 8 + d4", 7
        dims = "d0, d1, d2, d3, d4, d5, d6"
        pa = f"({mexpr}, d3 * 8 + d6)"
        pb = "(d3 * 8 + d6, d0 * 8 + d5)"
        pd = f"({mexpr}, d0 * 8 + d5)"
        bounds = "2 : index, 2 : index, 2 : index, 2 : index, 8 : index, 8 : index, 8 : index"
    else:
        dims = "d0, d1, d2, d3, d4, d5"
        pa = "(d1 * 8 + d3, d2 * 8 + d5)"
        pb = "(d2 * 8 + d5, d0 * 8 + d4)"
        pd = "(d1 * 8 + d3, d0 * 8 + d4)"
        bounds = "2 : index, 4 : index, 2 : index, 8 : index, 8 : index, 8 : index"
    return f"""
func.func @f(%arg0 : {TA}, %arg1 : {TB}, %arg2 : {TD}) {{
  %0 = arith.constant 0 : i32
  "dart.schedule"(%arg0, %arg1, %arg2) <{{patterns = [affine_map<({dims}) -> {pa}>, affine_map<({dims}) -> {pb}>, affine_map<({dims}) -> {pd}>],
      accelerator = "snax_gemmx", tiles = [[]], bounds = [{bounds}], operandSegmentSizes = array<i32: 2, 1>}}> ({{
  ^bb0(%1 : !dart.stream<i8>, %2 : !dart.stream<i8>, %3 : !dart.stream<i32>):
    %4 = "dart.generic"(%1, %2, %0, %0) <{{library_call = "snax_gemmx"}}> ({{
    ^bb1(%a : i8, %b : i8, %za : i32, %zb : i32, %acc : i32):
      %5 = kernel.qmac %a, %b zp_lhs : %za zp_rhs : %zb : i8, i8, i32, i32 -> i32
      dart.yield %5 : i32
    }}) : (!dart.stream<i8>, !dart.stream<i8>, i32, i32) -> !dart.stream<i32>
    dart.yield %4 : !dart.stream<i32>
  }}) : ({TA}, {TB}, {TD}) -> ()
  func.return
}}
"""


# ------------------------------------------------------------------ pipeline with observation points


WARNED = []


def compiler_warned_non_contiguous():
    return any("Non-contiguous access detected" in str(w.message) for c in WARNED for w in c)


def observe(src, acc_name, pre_passes, set_layout):
    from xdsl.parser import Parser

    from snaxc.dialects import dart, snax_stream

    main = xshim.make_main()
    if acc_name == "snax_xdma":
        try:
            from snaxc.accelerators.snax_xdma import SNAXXDMAAccelerator

            main.ctx.register_accelerator("snax_xdma", SNAXXDMAAccelerator)  # otherwise only registered through config files
        except ValueError:
            pass
    m = Parser(main.ctx, src).parse_module()
    spec = [f"insert-accfg-op{{accelerator={acc_name}}}"] + list(pre_passes)
    if set_layout:
        spec.append("set-memory-layout" + ("{tiled=true}" if set_layout == "tiled" else "{tiled=false}" if set_layout == "flat" else ""))
    del WARNED[:]
    with warnings.catch_warnings(record=True) as caught:
        warnings.simplefilter("always")
        WARNED.append(caught)  # what the compiler tells its user while it compiles (read by the signature)
        xshim.apply_passes(m, ",".join(spec), main)
        S = [o for o in m.walk() if isinstance(o, dart.ScheduleOp)][0]
        sched = dict(bounds=[b.value.data for b in S.bounds.data],
                     A=[np.array(__import__("snaxc.ir.dart.affine_transform", fromlist=["x"]).AffineTransform.from_affine_map(p.data).A, dtype=int) for p in S.patterns.data],
                     b=[np.array(__import__("snaxc.ir.dart.affine_transform", fromlist=["x"]).AffineTransform.from_affine_map(p.data).b, dtype=int) for p in S.patterns.data],
                     types=[o.type for o in S.operands], operands=list(S.operands))
        xshim.apply_passes(m, "dart-layout-resolution", main)
        AP = [o for o in m.walk() if isinstance(o, dart.AccessPatternOp)][0]
        from snaxc.ir.dart.affine_transform import AffineTransform

        ap = dict(strides=[[int(v) for v in AffineTransform.from_affine_map(p.data).A[0]] for p in AP.patterns.data],
                  consts=[int(AffineTransform.from_affine_map(p.data).b[0]) for p in AP.patterns.data],
                  ptr_sources=[o.owner.source for o in AP.operands])
        acc = main.ctx.get_acc(acc_name)
        template = acc.get_template(AP)
        tdims = template.num_dims
        try:
            xshim.apply_passes(m, "convert-dart-to-snax-stream", main)
            m.verify()  # as the pass manager does after every pass: the op verifier is part of what is accepted
        except Exception as e:  # the conversion rejects this access pattern: the resolution result is still checked
            return sched, ap, None, tdims, f"{type(e).__name__}: {str(e)[:60]}"
        R = [o for o in m.walk() if isinstance(o, snax_stream.StreamingRegionOp)][0]
    # the configuration as programmed: bound / stride constants of the accfg.setup generated for this region
    programmed = None
    try:
        from .c08 import eval_setup

        env = {}
        for o in R.operands:
            env[o] = z3.BitVec(f"p{len(env)}", 32)
        f0 = irsym.module_funcs(m)[0]
        I0 = irsym.Interp(W=32)
        for op in f0.body.blocks[0].ops:
            if op.name == "arith.constant":
                I0.run_op(op)
                env[op.results[0]] = I0.get(op.results[0])
        vals, names, _, _, _ = eval_setup(acc.convert_to_acc_ops(R), env)
        programmed = {n: irsym.bvval(v) for n, v in vals.items()}
    except Exception as e:
        programmed = dict(error=f"{type(e).__name__}: {str(e)[:80]}")
    streams = []
    for k, (o, p) in enumerate(zip(R.operands, R.stride_patterns.data)):
        src_mem = getattr(o.owner, "source", None) if hasattr(o, "owner") and o.owner.name == "memref.extract_aligned_pointer_as_index" else None
        streams.append(dict(ub=[x.data for x in p.upper_bounds], ts=[x.data for x in p.temporal_strides], ss=[x.data for x in p.spatial_strides],
                            name=acc.streamer_names[k] if k < len(acc.streamer_names) else None, programmed=programmed,
                            flags=[str(f.value) for f in acc.streamer_config.data.streamers[k].temporal_dims] if k < len(acc.streamer_config.data.streamers) else [],
                            source=src_mem, spatial_dims=list(acc.streamer_config.data.streamers[k].spatial_dims) if k < len(acc.streamer_config.data.streamers) else None))
    return sched, ap, streams, tdims, None


# ------------------------------------------------------------------ the check


def check(src, acc_name, pre_passes, set_layout, what):
    E = eng()
    sched, ap, streams, tdims, conv_err = observe(src, acc_name, pre_passes, set_layout)
    B = sched["bounds"]
    n = len(B)
    x = [z3.Int(f"x{i}") for i in range(n)]
    for xi, b in zip(x, B):
        E.assume(z3.And(xi >= 0, xi < b))
    # (i) layout resolution: sum stride_i x_i == bytes(layout(A x + b)) relative to the aligned pointer
    for o, (A, bvec, mt) in enumerate(zip(sched["A"], sched["b"], sched["types"])):
        ref, info = layout_ref(mt)
        if ref is None:
            continue
        idx = [sum((int(A[r, i]) * x[i] for i in range(n)), z3.IntVal(int(bvec[r]))) for r in range(A.shape[0])]
        got = sum((s * xi for s, xi in zip(ap["strides"][o], x)), z3.IntVal(ap["consts"][o]))
        E.oblige("layout_resolution:address_of_every_iteration", got == ref(idx),
                 dict(operand=o, layout=info, strides=ap["strides"][o], what=what))
    if streams is None:
        E.notes.append(f"conversion rejected: {conv_err}")
        E.oblige("explored", True)
        return
    # (ii) stream conversion: per temporal step the bytes of the streamer == bytes of the schedule
    nT = n - tdims
    BT = B[:nT]
    total_T = int(np.prod(BT)) if BT else 1
    t = z3.Int("t")
    E.assume(z3.And(t >= 0, t < total_T))
    # x_T digits of t: outermost schedule dim slowest
    xT = []
    rem = t
    for i in reversed(range(nT)):
        xT.insert(0, rem % BT[i])
        rem = rem / BT[i]
    # every scheduled operand is streamed through its own pointer (a stream that stands for another buffer by assuming
    # where that buffer lies does not count)
    disabled = lambda st: bool(st["ub"]) and not any(st["ub"])  # all-zero bounds; an EMPTY bound list is a single step
    served = {id(st["source"]) for st in streams if st["source"] is not None and not disabled(st)}
    for o, srcv in enumerate(ap["ptr_sources"]):
        E.oblige("stream:every_scheduled_operand_is_read_through_its_own_pointer", z3.BoolVal(id(srcv) in served), dict(operand=o, what=what))
    for k, st in enumerate(streams):
        if st["source"] is None or disabled(st):
            continue  # zero-pointer (generated) or disabled stream: stands for no scheduled operand
        cands = [o for o, s in enumerate(ap["ptr_sources"]) if s is st["source"]]
        if not cands:
            continue
        if len(cands) > 1 and k < len(streams) - 1:
            # the same buffer passed several times: the j-th stream reading it stands for its j-th occurrence
            earlier = sum(1 for k2 in range(k) if streams[k2]["source"] is st["source"] and not disabled(streams[k2]))
            o = cands[min(earlier, len(cands) - 1)]
        else:
            o = cands[-1] if len(cands) > 1 else cands[0]
        strides = ap["strides"][o]
        el = sched["types"][o].element_type.size
        # schedule side
        base2 = sum((s * xi for s, xi in zip(strides[:nT], xT)), z3.IntVal(0))
        S2 = set()
        for xs in itertools.product(*[range(b) for b in B[nT:]]):
            a = sum(s * v for s, v in zip(strides[nT:], xs))
            S2.update(range(a, a + el))
        # streamer side
        ub, ts, ss = st["ub"], st["ts"], st["ss"]
        sp = st["spatial_dims"] or []
        steps = int(np.prod(ub)) if ub else 1
        nz = [s for s in strides[nT:] if s != 0]
        inner_contig = (not nz) or nz[-1] == el  # the innermost scheduled (spatial) dimension is the one contiguous in memory
        E.oblige("stream:number_of_temporal_steps", z3.BoolVal(steps == total_T), dict(stream=k, operand=o, ub=ub, temporal_bounds=BT, what=what, inner_contiguous=inner_contig))
        if steps != total_T:
            continue
        base1 = z3.IntVal(0)
        rem = t
        for u, s in zip(ub, ts):
            base1 = base1 + (rem % u) * s
            rem = rem / u
        S1 = set()
        E.oblige("stream:one_spatial_stride_per_port_dim", z3.BoolVal(len(ss) == len(sp)), dict(stream=k, ss=ss, spatial_dims=sp))
        if len(ss) != len(sp):
            continue
        for ps in itertools.product(*[range(d) for d in sp]):
            a = sum(s * v for s, v in zip(ss, ps))
            S1.update(range(a, a + 8))
        m1, m2 = min(S1), min(S2)
        E.oblige("stream:bytes_per_step_shape", z3.BoolVal({v - m1 for v in S1} == {v - m2 for v in S2}),
                 dict(stream=k, operand=o, ss=ss, spatial_dims=sp, streamer_bytes=len(S1), schedule_bytes=len(S2), what=what, inner_contiguous=inner_contig))
        E.oblige("stream:base_address_of_every_step", base1 + m1 == base2 + m2, dict(stream=k, operand=o, ub=ub, ts=ts, strides=strides[:nT], what=what, inner_contiguous=inner_contig))
        # (iii) the programmed registers realise this stride pattern (a dimension may only be collapsed to bound 1
        # when its stride is 0: the word is then re-used inside the streamer)
        pg = st.get("programmed") or {}
        if "error" not in pg and st.get("name"):
            nm = st["name"]
            # a loop of the pattern beyond the streamer's own loops has no registers: its iterations would be dropped
            extra = [i for i in range(len(st["flags"]), len(ub)) if ub[i] != 1]
            E.oblige("programmed:every_temporal_loop_of_the_pattern_has_registers", z3.BoolVal(not extra),
                     dict(stream=k, streamer=nm, pattern_loops=len(ub), streamer_loops=len(st["flags"]), ub=ub, what=what))
            for i in range(len(st["flags"])):
                bi = ub[i] if i < len(ub) else 1
                si = ts[i] if i < len(ts) else 0
                pb, ps = pg.get(f"{nm}_bound_{i}"), pg.get(f"{nm}_tstride_{i}")
                if pb is None or ps is None:
                    continue
                ok = (pb == bi and ps == si) or (pb == 1 and si == 0 and ps == 0)
                E.oblige("programmed:bounds_and_strides_realise_the_pattern", z3.BoolVal(ok),
                         dict(stream=k, dim=i, pattern=(bi, si), programmed=(pb, ps), flag=st["flags"][i], what=what))
            for j in range(len(sp)):
                pss = pg.get(f"{nm}_sstride_{j}")
                if pss is not None:
                    E.oblige("programmed:spatial_strides", z3.BoolVal(pss == ss[j]), dict(stream=k, dim=j))
    E.oblige("explored", True)


def case_pipeline(case):
    kind = case[0]
    if kind == "alu":
        _, shape, lays = case
        src, acc, pre, setl = alu_src(shape, lays), "snax_alu", ["dart-scheduler"], None
    elif kind == "gemmx":
        _, (M, N, K), i8out, lays, setl = case
        src, acc, pre = gemmx_src(M, N, K, i8out, lays), "snax_gemmx", ["dart-scheduler"]
    elif kind == "alu_nl":
        # an access map that wraps around (mod) cannot be expressed by strides: the pipeline has to refuse the operation
        _, n, pat, nb = case
        src = alu_src((n,), (None, None, None)).replace("affine_map<(d0) -> (d0)>, affine_map<(d0) -> (d0)>", f"affine_map<(d0) -> (d0)>, affine_map<(d0) -> ({pat})>", 1)
        src = src.replace(f"%b : memref<{n}xi64>", f"%b : memref<{nb}xi64>").replace(f"(memref<{n}xi64>, memref<{n}xi64>, memref<{n}xi64>) -> ()", f"(memref<{n}xi64>, memref<{nb}xi64>, memref<{n}xi64>) -> ()")
        acc, pre, setl = "snax_alu", ["dart-scheduler"], None
    elif kind == "tiles":
        src, acc, pre, setl = tiles_src(case[1]), "snax_gemmx", ["dart-scheduler"], None
    elif kind == "bgemmx":
        _, (Bt, M, N, K), lays, setl = case
        src, acc, pre = bgemmx_src(Bt, M, N, K, lays), "snax_gemmx", ["dart-scheduler"]
    elif kind == "xdma_add":
        src, acc, pre, setl = xdma_add_src(case[1], case[2] if len(case) > 2 else None), "snax_xdma", ["dart-scheduler"], None
    elif kind in ("gemm4", "gemm4b"):
        _, ta, tb, tc, td = case
        src, acc, pre, setl = gemm4_src(ta, tb, tc, td), "snax_gemmx", ["dart-scheduler"], None
        if kind == "gemm4b":  # C is a bias vector broadcast over the rows: C[n]
            src = src.replace("affine_map<(d0, d1, d2) -> (d0, d1)>, affine_map<(d0, d1, d2) -> (d0, d1)>]",
                              "affine_map<(d0, d1, d2) -> (d1)>, affine_map<(d0, d1, d2) -> (d0, d1)>]")
    else:
        _, TA, TB, TD, mt = case
        src, acc, pre, setl = direct_schedule_src(TA, TB, TD, mt), "snax_gemmx", [], None

    def fn():
        if kind == "alu_nl":
            try:
                observe(src, acc, pre, setl)
            except Exception as e:
                eng().oblige("pipeline:operation_with_a_wrapping_access_map_is_refused", True)
                return
            eng().oblige("pipeline:operation_with_a_wrapping_access_map_is_refused", False, dict(pattern=case[2]))
            return
        check(src, acc, pre, setl, str(case)[:120])
        if kind == "tiles":
            # the pointers of the tile views, after convert-memref-to-arith has turned them into arithmetic
            from xdsl.parser import Parser

            main = xshim.make_main()
            m = Parser(main.ctx, src).parse_module()
            with warnings.catch_warnings():
                warnings.simplefilter("ignore")
                xshim.apply_passes(m, "insert-accfg-op{accelerator=snax_gemmx},dart-scheduler,dart-layout-resolution,convert-dart-to-snax-stream", main)
                ptrs, offvars = tile_pointers(m, main)
            E = eng()
            for v in offvars:
                t = z3.Int(f"tile_{v}")
                E.assume(z3.And(t >= 0, t <= 1, v == 8 * t * 2))  # tile-aligned offsets (0 or 16) inside the parent
            E.oblige("tiles:every_view_pointer_checked", len(ptrs) >= 3, dict(pointers=len(ptrs)))
            for k, got, want, offs in ptrs:
                E.oblige("stream:base_pointer_of_a_tile_view", got == want, dict(stream=k, offsets=str(offs), what=str(case)))

    def replay(f):
        ok, d = replay_pinned(fn, f)
        d["program"] = src
        return ok, d

    def sig(f, v):
        info = f.get("info") or {}
        lay = info.get("layout") or {}
        s = f["name"]
        if s.startswith("layout_resolution") and lay.get("offset"):
            s += f"|layout_with_nonzero_offset:{lay.get('kind')}"
        if (s.startswith("stream:") or s.startswith("programmed:")) and kind == "xdma_add":
            # the reader (operands 0 and 1 share one stream) is the recorded finding; the writer (operand 2) is not
            s += "|xdma_add_extension:" + ("writer" if info.get("operand") == 2 else "reader")
        if s.startswith("stream:") and kind == "gemm4b" and info.get("operand") == 2:
            s += "|bias_vector_broadcast_over_rows"
        if s.startswith("stream:") and info.get("inner_contiguous") is False:
            s += "|innermost_scheduled_dimension_not_the_contiguous_one"
        if (s.startswith("stream:") or s.startswith("programmed:")) and compiler_warned_non_contiguous():
            # the compiler went on after telling its user that the result will probably be incorrect
            s += "|compiler_warned_non_contiguous_access"
        return s

    return run_case(fn, replay, signature=sig, sample=dict(case=str(case)[:300]), key=str(case), timeout_ms=20000)


def run(chk):
    quick = chk.tier == "quick"
    rnd = random.Random(chk.seed)
    chk.functions = ["snaxc.transforms.dart.dart_layout_resolution.LayoutResolution", "snaxc.transforms.convert_dart_to_snax_stream.ConvertStreamToSnaxStreamPattern",
                     "snaxc.accelerators.snax_gemmx.set_stride_patterns/get_streamers/get_template, snax_alu", "snaxc.dialects.snax_stream.StridePattern.canonicalize",
                     "snaxc.dialects.tsl.TiledStridedLayoutAttr.get_affine_map, MemRefType.get_affine_map_in_bytes (executed)",
                     "dart-scheduler and set-memory-layout (real, produce the inputs)"]
    chk.explanation = (
        "The real pass pipeline (insert-accfg-op, dart-scheduler, [set-memory-layout], dart-layout-resolution, "
        "convert-dart-to-snax-stream) is run on enumerated operations/shapes/layouts and observed at three points (dart.schedule, "
        "dart.access_pattern, snax_stream.streaming_region). z3 proves over a symbolic iteration point that the resolved strides give "
        "the byte address the operand's layout assigns to the scheduled element (reference: MLIR strided semantics / the TSL function "
        "of C10, both including the layout offset), and over a symbolic temporal step that the streamer machine (8-byte words at "
        "p + sum t_i*ts_i + sum s_j*ss_j) touches exactly the bytes of the elements the schedule assigns to that step (spatial boxes "
        "expanded, <= 512 points). Hand-written dart.schedule ops cover two- and three-level tiled layouts.")
    chk.assumptions = ["streamer semantics as in snax_cluster streamer.md (cited in snax_stream.py): innermost bound first, 8-byte words per port",
                       "zero-pointer and all-zero-bound streams are generated/disabled streams and stand for no operand",
                       "shapes are concrete (memref types), iteration points and temporal steps symbolic"]
    cases = []
    for n in (16, 64, 4, 32) + (() if quick else (8, 128, 20)):
        cases.append(("alu", (n,), (None, None, None)))
        cases.append(("alu", (n,), ("strided<[1], offset: 0>", None, "strided<[1], offset: 4>")))
    cases.append(("alu", (4, 16), (None, None, None)))
    cases.append(("alu", (4, 16), ("strided<[32, 1]>", None, "strided<[16, 1], offset: 8>")))
    shapes = [(16, 16, 16), (8, 8, 8), (32, 16, 24), (16, 8, 32), (16, 16, 8), (8, 32, 8)] + ([] if quick else [(24, 24, 24), (24, 16, 8), (64, 8, 8), (8, 8, 64)])
    for shp in shapes:
        M, N, K = shp
        for i8out in (False, True):
            cases.append(("gemmx", shp, i8out, (None, f"strided<[1, {K}]>", None), None))
            cases.append(("gemmx", shp, i8out, (None, None, None), "tiled"))
            if not quick:
                cases.append(("gemmx", shp, i8out, (None, None, None), "flat"))
        cases.append(("gemmx", shp, False, (f"strided<[{K}, 1], offset: 16>", f"strided<[1, {K}]>", None), None))
    # D = A*B + C (four operands): C tile-contiguous, row-major, tiles with a gap between rows (the last two cannot be
    # streamed by this streamer configuration: the compiler has to refuse them or get them right)
    def rt(r, c, el):
        return f"memref<{r}x{c}x{el}, #tsl.tsl<[{r // 8}, 8] -> ({64 * (c // 8)}, 8), [{c // 8}, 8] -> (64, 1)>>"

    def ct(r, c, el):
        return f"memref<{r}x{c}x{el}, #tsl.tsl<[{r // 8}, 8] -> (64, 1), [{c // 8}, 8] -> ({64 * (r // 8)}, 8)>>"

    for M, N, K in ((16, 16, 16), (8, 16, 8)) + (() if quick else ((16, 8, 24), (24, 16, 8))):
        for tc in (rt(M, N, "i32"), f"memref<{M}x{N}xi32>", f"memref<{M}x{N}xi32, #tsl.tsl<[{M // 8}, 8] -> ({128 * (N // 8)}, 16), [{N // 8}, 8] -> (128, 1)>>"):
            cases.append(("gemm4", rt(M, K, "i8"), ct(K, N, "i8"), tc, rt(M, N, "i32")))
    for M, N, K in ((16, 16, 16), (8, 16, 8)) + (() if quick else ((16, 8, 8), (24, 16, 8))):
        cases.append(("gemm4b", rt(M, K, "i8"), ct(K, N, "i8"), f"memref<{N}xi32>", rt(M, N, "i32")))
    # element-wise add on the xDMA (add extension of the reader)
    for n in (128, 64) + (() if quick else (16, 256)):
        cases.append(("xdma_add", n))
    # result laid out differently from the inputs (padded rows)
    cases.append(("xdma_add", (24, 32), "strided<[64, 1]>"))
    cases.append(("xdma_add", (8, 16), "strided<[32, 1], offset: 0>"))
    cases.append(("xdma_add", (24, 32)))
    # the same buffer as both inputs with different access maps (Gram matrix X * X^T)
    for M, K in ((16, 16), (8, 24), (24, 8)) + (() if quick else ((32, 16), (16, 64))):
        for i8out in (False, True):
            cases.append(("gemmx", (M, M, K), i8out, (None, "gram", None), None))
    # seeded family: random multiples of the 8x8x8 tile, random operand layouts (row/column major, padded rows, offsets)
    for _ in range(30 if quick else 2500):
        M, N, K = (8 * rnd.randint(1, 8) for _ in range(3))
        la = rnd.choice([None, None, f"strided<[{K}, 1]>", f"strided<[{K + 8}, 1]>", f"strided<[1, {M}]>", f"strided<[{K}, 1], offset: {8 * rnd.randint(1, 4)}>"])
        lb = rnd.choice([None, f"strided<[1, {K}]>", f"strided<[1, {K + 16}]>", f"strided<[{N}, 1]>"])
        mode = rnd.choice([None, None, "tiled"] + ([] if quick else ["flat"]))
        if mode is not None:
            la = lb = None
        cases.append(("gemmx", (M, N, K), rnd.random() < 0.5, (la, lb, None), mode))
    # an innermost run of exactly one bank (8 bytes) whose elements are not adjacent: K = 4 with every second byte
    # (refused or right)
    cases.append(("gemmx", (8, 8, 4), False, ("strided<[8, 2]>", None, None), None))
    cases.append(("gemmx", (8, 8, 4), False, ("strided<[8, 2]>", "strided<[2, 8]>", None), None))
    cases.append(("gemmx", (16, 8, 4), False, ("strided<[8, 2]>", "strided<[2, 8]>", None), None))
    cases.append(("gemmx", (8, 8, 2), False, ("strided<[8, 4]>", None, None), None))
    # under-used arrays whose innermost runs are no whole number of banks (refused or right)
    for shp in ((8, 3, 8), (8, 5, 8), (8, 6, 8), (8, 2, 8), (3, 8, 8), (8, 8, 3), (8, 1, 8), (8, 4, 4)):
        cases.append(("gemmx", shp, False, (None, f"strided<[1, {shp[2]}]>", None), None))
    for n, pat, nb in ((16, "d0 mod 8", 8), (16, "d0 mod 4 + 2", 6), (64, "d0 floordiv 2", 32), (16, "d0 ceildiv 2", 9)):
        cases.append(("alu_nl", n, pat, nb))
    # operands that are tiles (subviews with run-time offsets) of larger tiled buffers: the stream's base pointer is the
    # parent's pointer moved to the tile, whichever of the offsets are run-time values
    for which in (("ai", "bj", "di", "dj"), ("bj", "dj"), ("ai", "di"), ("dj",), ("di",), ()):
        cases.append(("tiles", which))
    # batched matmul: a fourth loop; with layouts whose loops do not merge the B / D streamers (3 loops) cannot express
    # the pattern - refused or right
    for Bt, M, N, K in ((2, 16, 16, 16), (3, 16, 8, 16)) + (() if quick else ((2, 24, 16, 8), (4, 8, 16, 16))):
        cases.append(("bgemmx", (Bt, M, N, K), (None, None, None), None))
        cases.append(("bgemmx", (Bt, M, N, K), (None, f"strided<[{K * N}, 1, {K}]>", None), None))
        cases.append(("bgemmx", (Bt, M, N, K), (None, f"strided<[{K * N}, 1, {K}]>", f"#tsl.tsl<[{Bt}] -> ({M * N}), [{M // 8}, 8] -> ({64 * (N // 8)}, 8), [{N // 8}, 8] -> (64, 1)>"), None))
        cases.append(("bgemmx", (Bt, M, N, K), (None, None, None), "tiled"))
    # direct schedules with explicit TSL layouts
    cases.append(("direct", "memref<32x16xi8, #tsl.tsl<[4, 8] -> (128, 8), [2, 8] -> (64, 1)>>", "memref<16x16xi8, #tsl.tsl<[2, 8] -> (64, 1), [2, 8] -> (128, 8)>>",
                  "memref<32x16xi32, #tsl.tsl<[4, 8] -> (64, 8), [2, 8] -> (256, 1)>>", 2))
    cases.append(("direct", "memref<32x16xi8, #tsl.tsl<[2, 2, 8] -> (1024, 128, 8), [2, 8] -> (64, 1)>>", "memref<16x16xi8, #tsl.tsl<[2, 8] -> (64, 1), [2, 8] -> (128, 8)>>",
                  "memref<32x16xi32, #tsl.tsl<[4, 8] -> (64, 8), [2, 8] -> (256, 1)>>", 3))
    cases.append(("direct", "memref<32x16xi8, #tsl.tsl<[2, 2, 8] -> (512, 128, 8), [2, 8] -> (64, 1)>>", "memref<16x16xi8, #tsl.tsl<[2, 8] -> (64, 1), [2, 8] -> (128, 8)>>",
                  "memref<32x16xi32, #tsl.tsl<[2, 2, 8] -> (256, 64, 8), [2, 8] -> (512, 1)>>", 3))
    cases.append(("direct", "memref<32x16xi8, #tsl.tsl<[4, 8] -> (128, 8), [2, 8] -> (64, 1), offset: 64>>", "memref<16x16xi8, #tsl.tsl<[2, 8] -> (64, 1), [2, 8] -> (128, 8)>>",
                  "memref<32x16xi32, #tsl.tsl<[4, 8] -> (64, 8), [2, 8] -> (256, 1)>>", 2))
    chk.add_results("pipeline_observations", pmap(case_pipeline, cases))
    chk.bounds = dict(cases=len(cases), alu_shapes="1-D and 2-D", gemmx_shapes=[str(s) for s in shapes], layouts="identity / strided (incl. offsets) / TSL chosen by set-memory-layout / explicit 2- and 3-level TSL")
    chk.outside = ["snax_xdma extensions other than add", "rescale-only kernels on gemmx", "dynamic shapes", "element widths other than i8/i32/i64"]
