"""C06 - setup/compute overlap keeps every launch's configuration."""

from __future__ import annotations

from .. import accfg_common as ac
from .. import irsym, xshim
from ..harness import replay_pinned, run_case
from ..runner import pmap
from ..sym import eng
from .c01 import compare, situation

LEVEL = "translation_validation"

OV_PATTERNS = ["BlockLevelSetupAwaitOverlapPattern", "LoopLevelSetupAwaitOverlapPattern"]


def overlap(ctx, module, without=()):
    from xdsl.pattern_rewriter import GreedyRewritePatternApplier, PatternRewriteWalker

    from snaxc.transforms import accfg_config_overlap as O

    if not without:
        O.AccfgConfigOverlapPass().apply(ctx, module)
        return
    pats = [getattr(O, n)() for n in OV_PATTERNS if n not in without]
    PatternRewriteWalker(GreedyRewritePatternApplier(pats)).rewrite_module(module)


def build(src, dedup_first, without=()):
    import contextlib
    import io

    from xdsl.parser import Parser

    from snaxc.transforms.accfg_dedup import AccfgDeduplicate
    from snaxc.transforms.convert_linalg_to_accfg import TraceStatesPass

    ctx = xshim.make_ctx()
    m1 = Parser(ctx, src).parse_module()
    TraceStatesPass().apply(ctx, m1)
    if dedup_first:
        AccfgDeduplicate().apply(ctx, m1)
    m2 = m1.clone()
    with contextlib.redirect_stderr(io.StringIO()):  # the pass prints diagnostics for inputs it gives up on
        overlap(ctx, m2, without)
    return m1, m2


def case_prog(case, K=2, W=32):
    prog, dedup_first = case
    src = ac.render(prog)
    try:
        m1, m2 = build(src, dedup_first)
    except Exception as e:
        return dict(rejected=f"{type(e).__name__}: {str(e)[:80]}", case=str(prog)[:300])
    verr = None
    try:
        m2.verify()
    except Exception as e:
        verr = str(e)[:200]

    def fn():
        if verr:
            eng().oblige("verify", False, dict(error=verr))
            return
        compare(m1, m2, K, W)

    def replay(f):
        def again():
            a, b = build(src, dedup_first)
            try:
                b.verify()
            except Exception as e:
                eng().oblige("verify", False, dict(error=str(e)[:200]))
                return
            compare(a, b, max(K, 4), W)
        ok, d = replay_pinned(again, f)
        if ok:
            culprits = []
            for p in OV_PATTERNS:
                def without_p():
                    a, b = build(src, dedup_first, without=(p,))
                    compare(a, b, max(K, 4), W)
                try:
                    ok2, _ = replay_pinned(without_p, f)
                except Exception:
                    ok2 = True
                if not ok2:
                    culprits.append(p)
            d["culprit_patterns"] = culprits
        d["program"] = src
        d["situation"] = situation(prog)
        return ok, d

    def sig(f, v):
        d = v.get("detail") or {}
        cul = "+".join(d.get("culprit_patterns", [])) if isinstance(d, dict) else "?"
        rel = (f.get("info") or {}).get("reliance", "")
        return f"{f['name']}|site={cul or 'none-single'}" + (f"|{rel}" if rel else "") + ("|after_dedup" if dedup_first else "")

    return run_case(fn, replay, signature=sig, sample=dict(program=str(prog), dedup_first=dedup_first), key=str(case),
                    max_paths=400)


def run(chk):
    from .. import runner as _runner

    _runner.CASE_TIMEOUT_S = min(_runner.CASE_TIMEOUT_S, 30)  # a pass that does not terminate on an input is a rejected input
    quick = chk.tier == "quick"
    progs, n_exh = ac.program_set(chk.tier, chk.seed + 1)
    K = 3 if quick else 4
    chk.functions = ["snaxc.transforms.accfg_config_overlap.AccfgConfigOverlapPass (Block/LoopLevelSetupAwaitOverlapPattern)",
                     "snaxc.inference.scoped_setups.get_scoped_setup_inputs/ScopedSetupWithInputs",
                     "accfg-trace-states and accfg-dedup (real, produce the input of the pass)"]
    chk.explanation = (
        "Translation validation of the real accfg-config-overlap: generated accfg programs (incl. loops with extra "
        "loop-carried values, setup values computed by chains of pure ops from induction variables / carried values, "
        "shared subexpressions between fields) are traced (and deduplicated in one of the two pipelines), then "
        "overlapped; input and output IR run on the abstract CSR machine on shared paths with symbolic arguments, "
        "lb/ub/step, branch conditions; z3 proves equal launch/await sequences and equal observed registers per "
        "launch; a value used before its definition in the output is a violation.")
    chk.assumptions = ["as C01 (step>0, bounds<4096, K-bounded unrolling, clobbering calls)", "pipelines: trace->overlap and trace->dedup->overlap"]
    cases = [(p, True) for p in progs] + [(p, False) for p in progs[:: 2]]
    # setup values chosen by a pure region op (scf.if) that takes a value computed between the previous launch and the
    # setup from its surroundings: straight-line, behind a loop, and at the head of a loop body
    for pa in (15, 16):
        for d in (0, 1, 2):
            extra = [(("cfg", "acc1", 0), ("def", d), ("cfg", "acc1", pa)),
                     (("cfg", "acc1", 1), ("def", d), ("cfg", "acc1", pa), ("def", d + 1), ("cfg", "acc1", 31 - pa)),
                     (("def", d), ("for", "args", (("cfg", "acc1", pa),))),
                     (("cfg", "acc1", 0), ("for", "c01", (("def", d), ("cfg", "acc1", pa), ("cfg", "acc1", 3))))]
            cases += [(p, dd) for p in extra for dd in (True, False)]
    # a launch nested in a conditional in front of the first setup of a loop body: it must keep seeing the registers of
    # the previous iteration (or of the code in front of the loop), not those of the setup behind it
    for bk in ("args", "c01", "k13", "k03s2"):
        for pa, pb in ((0, 3), (1, 5), (3, 0), (2, 4)):
            for eb in (None, (("rl", "acc1"),)):
                cases += [((("cfg", "acc1", pa), ("for", bk, (("if", 0, (("rl", "acc1"),), eb), ("cfg", "acc1", pb)))), dd) for dd in (True, False)]
                cases += [((("cfg", "acc1", pa), ("for", bk, (("if", 1, (("rl", "acc1"),), eb), ("cfg", "acc1", pb), ("cfg", "acc1", pa)))), dd) for dd in (True, False)]
    chk.add_results("overlap_vs_input", pmap(case_prog, cases, kw=dict(K=K), chunks=4))
    chk.bounds = dict(programs=len(cases), unroll_K=K, exhaustive_part=n_exh)
    chk.outside = ["programs outside the grammar", f"more than {K} iterations of a loop"]
