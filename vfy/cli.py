import argparse
import importlib
import json
import os
import sys
import warnings

warnings.filterwarnings("ignore")


def main():
    ap = argparse.ArgumentParser()
    ap.add_argument("pid")
    ap.add_argument("--tier", default=os.environ.get("VERIF_TIER", "quick"), choices=["quick", "thorough"])
    ap.add_argument("--seed", type=int, default=int(os.environ.get("VERIF_SEED", "0") or 0))
    ap.add_argument("--replay", default=None)
    ap.add_argument("--only", default=None, help="restrict to one section (debugging)")
    a = ap.parse_args()
    from vfy import xshim  # noqa: F401  (must precede snaxc imports)
    from vfy.runner import Check

    if a.pid == "selftest":
        from vfy import selftest

        sys.exit(selftest.main(a))
    mod = importlib.import_module(f"vfy.props.{a.pid.lower()}")
    if a.replay:
        with open(a.replay) as f:
            v = json.load(f)
        if hasattr(mod, "replay"):
            ok = mod.replay(v)
        else:
            # generic replay: re-run the section the violation came from (same tier and seed, /repo's current tree);
            # every counterexample found there is again replayed on the real code with the model pinned. Reproduced =
            # a violation with the same signature shows up again.
            chk = Check(a.pid, mod.LEVEL, v.get("tier", a.tier), int(v.get("seed", a.seed)))
            chk.only = v.get("section")
            chk.dry = True
            mod.run(chk)
            chk.finish()
            ok = any(w.get("replayed") and w.get("signature") == v.get("signature") for w in chk.violations)
        print(("REPRODUCED" if ok else "NOT REPRODUCED"), a.replay)
        sys.exit(1 if ok else 0)
    chk = Check(a.pid, mod.LEVEL, a.tier, a.seed)
    chk.extra["repo"] = xshim.repo_head()
    chk.only = a.only
    mod.run(chk)
    sys.exit(chk.finish())


if __name__ == "__main__":
    main()
