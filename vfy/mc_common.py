"""Shared by C13/C14/C15 (and C12): multi-core program generator pieces and interpreter handlers."""

from __future__ import annotations

import z3

from . import irsym, sym
from .irsym import Interp, Opaque
from .sym import eng

BUF_T = "memref<8xi32>"

GENERIC = """"linalg.generic"({i0}, {i1}, {o}) <{{indexing_maps = [affine_map<(d0) -> (d0)>, affine_map<(d0) -> (d0)>, affine_map<(d0) -> (d0)>], iterator_types = [#linalg.iterator_type<parallel>], operandSegmentSizes = array<i32: 2, 1>}}> ({{
{ind}^bb1(%x{t} : i32, %y{t} : i32, %z{t} : i32):
{ind}  %m{t} = "arith.muli"(%x{t}, %y{t}) : (i32, i32) -> i32
{ind}  "linalg.yield"(%m{t}) : (i32) -> ()
{ind}}}) {{tag = {t} : i32}} : ({ty}, {ty}, {ty}) -> ()"""

GEMMX_REGION = """"dart.operation"({i0}, {i1}, {o}) <{{patterns = [affine_map<(d0) -> (d0)>, affine_map<(d0) -> (d0)>, affine_map<(d0) -> (d0)>], accelerator = "{acc}", operandSegmentSizes = array<i32: 2, 1>}}> ({{
{ind}^bb2(%s0{t} : !dart.stream<i32>, %s1{t} : !dart.stream<i32>, %s2{t} : !dart.stream<i32>):
{ind}  %g{t} = "dart.generic"(%s0{t}, %s1{t}) <{{library_call = "{acc}"}}> ({{
{ind}  ^bb3(%p{t} : i32, %q{t} : i32, %r{t} : i32):
{ind}    %k{t} = kernel.add %p{t}, %q{t} : i32, i32 -> i32
{ind}    dart.yield %k{t} : i32
{ind}  }}) : (!dart.stream<i32>, !dart.stream<i32>) -> !dart.stream<i32>
{ind}  dart.yield %g{t} : !dart.stream<i32>
{ind}}}) {{tag = {t} : i32}} : ({ty}, {ty}, {ty}) -> ()"""


# streaming region on the xDMA with a one-input kernel (rescale): element types of input / output differ per kernel
RESCALE_ATTRS = "{input_zp = 1 : i32, output_zp = 2 : i32, multiplier = array<i32: 3>, shift = array<i32: 4>, max_int = 127 : i32, min_int = -128 : i32, double_round = false}"
XDMA_REGION1 = """"dart.operation"({i0}, {o}) <{{patterns = [affine_map<(d0) -> (d0)>, affine_map<(d0) -> (d0)>], accelerator = "{acc}", operandSegmentSizes = array<i32: 1, 1>}}> ({{
{ind}^bb2(%s0{t} : !dart.stream<{ti}>, %s2{t} : !dart.stream<{to}>):
{ind}  %g{t} = "dart.generic"(%s0{t}) <{{library_call = "{acc}"}}> ({{
{ind}  ^bb3(%p{t} : {ti}, %r{t} : {to}):
{ind}    %kk{t} = kernel.rescale %p{t} """ + RESCALE_ATTRS.replace("{", "{{").replace("}", "}}") + """ : ({ti}) -> {to}
{ind}    dart.yield %kk{t} : {to}
{ind}  }}) : (!dart.stream<{ti}>) -> !dart.stream<{to}>
{ind}  dart.yield %g{t} : !dart.stream<{to}>
{ind}}}) {{tag = {t} : i32}} : ({tyi}, {tyo}) -> ()"""

# a fused region: two generics, the second consuming the first one's stream ({k1}/{k2}: kernel op names add / mul)
FUSED_REGION = """"dart.operation"({i0}, {i1}, {o}) <{{patterns = [affine_map<(d0) -> (d0)>, affine_map<(d0) -> (d0)>, affine_map<(d0) -> (d0)>], accelerator = "{acc}", operandSegmentSizes = array<i32: 2, 1>}}> ({{
{ind}^bb2(%s0{t} : !dart.stream<i32>, %s1{t} : !dart.stream<i32>, %s2{t} : !dart.stream<i32>):
{ind}  %g{t} = "dart.generic"(%s0{t}, %s1{t}) <{{library_call = "{acc}"}}> ({{
{ind}  ^bb3(%p{t} : i32, %q{t} : i32, %r{t} : i32):
{ind}    %kk{t} = kernel.{k1} %p{t}, %q{t} : i32, i32 -> i32
{ind}    dart.yield %kk{t} : i32
{ind}  }}) : (!dart.stream<i32>, !dart.stream<i32>) -> !dart.stream<i32>
{ind}  %h{t} = "dart.generic"(%g{t}, %s1{t}) <{{library_call = "{acc}"}}> ({{
{ind}  ^bb4(%pp{t} : i32, %qq{t} : i32, %rr{t} : i32):
{ind}    %kl{t} = kernel.{k2} %pp{t}, %qq{t} : i32, i32 -> i32
{ind}    dart.yield %kl{t} : i32
{ind}  }}) : (!dart.stream<i32>, !dart.stream<i32>) -> !dart.stream<i32>
{ind}  dart.yield %h{t} : !dart.stream<i32>
{ind}}}) {{tag = {t} : i32}} : ({ty}, {ty}, {ty}) -> ()"""

# kernels the xDMA's streamer extensions implement (kind, operand and result element types), written down independently
XDMA_KERNELS = {("kernel.add", ("i32", "i32", "i32")), ("kernel.rescale", ("i32", "i8")), ("kernel.rescale", ("i8", "i32"))}


def region_kernel(op):
    """(kernel op name, element types of its operands and results) of a streaming region's first generic, or None."""
    try:
        g = op.body.block.first_op
        k = g.body.block.first_op
        return (k.name, tuple(str(t) for t in [*k.operand_types, *k.result_types]))
    except Exception:
        return None


def classify(op):
    """independent classification of the ops our programs contain (the compiler's own rules are NOT consulted):
    memref.copy and regions on the xDMA whose kernel a streamer extension implements are data movement; linalg.generic
    and all other regions compute."""
    n = op.name
    if n == "memref.copy":
        return "dm"
    if n == "linalg.generic":
        return "compute"
    if n in ("dart.operation", "dart.schedule", "dart.access_pattern", "snax_stream.streaming_region"):
        acc = op.properties.get("accelerator") or op.attributes.get("accelerator")
        if acc is not None and acc.data == "snax_xdma":
            # the data mover only runs what its extensions implement; any other kernel is an accelerator operation of
            # the compute core like the regions of every other accelerator (a fused region goes by its first kernel,
            # as the dispatch rules document)
            return "dm" if region_kernel(op) in XDMA_KERNELS else "compute"
        return "compute"
    return "all"


def op_tag(op):
    t = op.attributes.get("tag")
    return t.value.data if t is not None else None


def effect_handlers(record):
    """ops with effects become events (tag, class, operands as opaque buffer identities); record(I, op, cls) is called."""

    def h(I, op):
        record(I, op, classify(op))

    def h_br(I, op):
        blk = op.successor
        for a, v in zip(blk.args, [I.get(o) for o in op.operands]):
            I.set(a, v)
        return I.run_block(blk)

    def h_cond_br(I, op):
        c = I.get(op.cond)
        taken = eng().branch(c != 0 if I.intmode else irsym.bv2b(c))
        blk = op.then_block if taken else op.else_block
        args = op.then_arguments if taken else op.else_arguments
        for a, v in zip(blk.args, [I.get(o) for o in args]):
            I.set(a, v)
        return I.run_block(blk)

    def h_subview(I, op):
        src = I.get(op.source)
        offs = [I.get(o) for o in op.offsets]
        static = op.static_offsets.get_values()
        I.set(op.result, Opaque("view", root=getattr(src, "root", src), of=src, offsets=tuple(offs), static=tuple(static), op=op))

    def h_alloc(I, op):
        I.set(op.results[0], Opaque("buffer", name=f"alloc{id(op) % 100000}", op=op))

    def h_cast(I, op):
        src = I.get(op.operands[0])
        I.set(op.results[0], src)

    return {"memref.copy": h, "linalg.generic": h, "dart.operation": h, "dart.schedule": h, "test.op": h, "cf.br": h_br, "cf.cond_br": h_cond_br,
            "memref.subview": h_subview, "memref.alloc": h_alloc, "memref.dealloc": h, "builtin.unrealized_conversion_cast": h_cast,
            "memref.cast": h_cast, "snax.layout_cast": h_cast}
