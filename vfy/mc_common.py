"""Shared by C13/C14/C15 (and C12): multi-core program generator pieces and interpreter handlers."""

from __future__ import annotations

import z3

from . import irsym, sym
from .irsym import Interp, Opaque
from .sym import eng

BUF_T = "memref<8xi32>"

GENERIC = """"linalg.generic"({i0}, {i1}, {o}) <{{indexing_maps = [affine_map<(d0) -> (d0)>, affine_map<(d0) -> (d0)>, affine_map<(d0) -> (d0)>], iterator_types = [#linalg.iterator_type<parallel>], operandSegmentSizes = array<i32: 2, 1>}}> ({{
{ind}^bb1(%x{t} : i32, %y{t} : i32, %z{t} : i32):
{ind}  %m{t} = "arith.muli"(%x{t}, %y{t}) : (i32, i32) -> i32
{ind}  "linalg.yield"(%m{t}) : (i32) -> ()
{ind}}}) {{tag = {t} : i32}} : ({ty}, {ty}, {ty}) -> ()"""

GEMMX_REGION = """"dart.operation"({i0}, {i1}, {o}) <{{patterns = [affine_map<(d0) -> (d0)>, affine_map<(d0) -> (d0)>, affine_map<(d0) -> (d0)>], accelerator = "{acc}", operandSegmentSizes = array<i32: 2, 1>}}> ({{
{ind}^bb2(%s0{t} : !dart.stream<i32>, %s1{t} : !dart.stream<i32>, %s2{t} : !dart.stream<i32>):
{ind}  %g{t} = "dart.generic"(%s0{t}, %s1{t}) <{{library_call = "{acc}"}}> ({{
{ind}  ^bb3(%p{t} : i32, %q{t} : i32, %r{t} : i32):
{ind}    %k{t} = kernel.add %p{t}, %q{t} : i32, i32 -> i32
{ind}    dart.yield %k{t} : i32
{ind}  }}) : (!dart.stream<i32>, !dart.stream<i32>) -> !dart.stream<i32>
{ind}  dart.yield %g{t} : !dart.stream<i32>
{ind}}}) {{tag = {t} : i32}} : ({ty}, {ty}, {ty}) -> ()"""


def classify(op):
    """independent classification of the ops our programs contain (the compiler's own rules are NOT consulted):
    memref.copy and regions on the xDMA are data movement; linalg.generic and regions on other accelerators compute."""
    n = op.name
    if n == "memref.copy":
        return "dm"
    if n == "linalg.generic":
        return "compute"
    if n in ("dart.operation", "dart.schedule", "dart.access_pattern", "snax_stream.streaming_region"):
        acc = op.properties.get("accelerator") or op.attributes.get("accelerator")
        return "dm" if acc is not None and acc.data == "snax_xdma" else "compute"
    return "all"


def op_tag(op):
    t = op.attributes.get("tag")
    return t.value.data if t is not None else None


def effect_handlers(record):
    """ops with effects become events (tag, class, operands as opaque buffer identities); record(I, op, cls) is called."""

    def h(I, op):
        record(I, op, classify(op))

    def h_br(I, op):
        blk = op.successor
        for a, v in zip(blk.args, [I.get(o) for o in op.operands]):
            I.set(a, v)
        return I.run_block(blk)

    def h_subview(I, op):
        src = I.get(op.source)
        offs = [I.get(o) for o in op.offsets]
        static = op.static_offsets.get_values()
        I.set(op.result, Opaque("view", root=getattr(src, "root", src), of=src, offsets=tuple(offs), static=tuple(static), op=op))

    def h_alloc(I, op):
        I.set(op.results[0], Opaque("buffer", name=f"alloc{id(op) % 100000}", op=op))

    def h_cast(I, op):
        src = I.get(op.operands[0])
        I.set(op.results[0], src)

    return {"memref.copy": h, "linalg.generic": h, "dart.operation": h, "dart.schedule": h, "test.op": h, "cf.br": h_br,
            "memref.subview": h_subview, "memref.alloc": h_alloc, "memref.dealloc": h, "builtin.unrealized_conversion_cast": h_cast,
            "memref.cast": h_cast, "snax.layout_cast": h_cast}
