#!/usr/bin/env python3
"""Prints the prompt handed to an independent mutation sub-agent for one property (property text only)."""
import json, sys
pid = sys.argv[1]
for l in open('/verif/properties.jsonl'):
    d = json.loads(l)
    if d['id'] == pid:
        break
files = ", ".join(d['anchors']['files'])
mech = "; ".join(f"{m['name']} ({m['where']})" for m in d['anchors']['mechanism'])
print(f"""You are helping to evaluate a verification effort by playing the adversary. The subject is the Python compiler
KULeuven-MICAS/snax-mlir (snax-opt: lowers linalg/stream MLIR to accelerator CSR setup code; built on xDSL).
You have your own scratch git worktree of it at /tmp/mut/{pid}/wt . Work ONLY inside /tmp/mut/{pid}/ . Never read or
write /repo or /verif (they are off limits), and do not look at other /tmp/mut/C* directories.

PROPERTY {pid}: {d['title']}
Statement: {d['statement']}
Quantified over: {d['quantifier']['text']}
Code the property is anchored in: {files}
Mechanisms: {mech}

YOUR TASK: produce TWO different, realistic source changes ("seeded defects") to the compiler (files under
/tmp/mut/{pid}/wt/snaxc/) that each BREAK this property, while the code still imports and the existing pinned test-suite
still passes. Think of plausible maintainer mistakes: an off-by-one, a wrong operand, a dropped guard, a condition
that is too permissive, two sites that each look fine alone. IMPORTANT: each change must need something specific to
manifest - an unusual input, a particular trip count or branch outcome, a multi-step sequence, a particular
configuration or shape - NOT something that ordinary use or the simplest example would expose at once. The two changes
should break the property through different mechanisms / code sites. Prefer code sites and triggering inputs that a
checker exploring typical small programs would be unlikely to reach: secondary branches, helper functions, rarely used
options or element types, interactions between two passes, particular nesting or ordering of operations. Earlier rounds
of this exercise already covered the most obvious single-line slips at the central functions named above, so look
further afield: code that those functions call, data structures they share with other passes, printing/parsing of the
attributes involved, default arguments, and inputs that combine two features.

Environment facts:
 * Python is /venv/bin/python (3.12). No network. Run things from inside the worktree so that `import snaxc` picks up
   the worktree copy: `cd /tmp/mut/{pid}/wt && PYTHONPATH=/tmp/mut/{pid}/wt:/tmp/mut/{pid} /venv/bin/python ...`
   (check with `python -c "import snaxc; print(snaxc.__file__)"`).
 * The installed xdsl is 0.70.0, on which several snaxc dialects (accfg, dart, phs, pipeline, snax_stream) fail to import.
   /tmp/mut/{pid}/xshim.py fixes that: `import xshim` BEFORE importing snaxc. With it, passes can be run in-process:
       import xshim
       from snaxc.tools.snax_opt_main import SNAXOptMain
       ctx = SNAXOptMain(args=[]).ctx          # context with all dialects registered
       from xdsl.parser import Parser
       module = Parser(ctx, mlir_text).parse_module()
       SomePass().apply(ctx, module)            # pass classes live in snaxc/transforms/...
   or the whole tool: SNAXOptMain(args=[path, "-p", "pass-a,pass-b", "-o", out]).run() . The filecheck inputs under
   tests/filecheck/ show the IR syntax each pass expects (there is no mlir-opt / filecheck / lit binary here; the
   python packages `minimalloc`, `dacite`, `yaml` are absent).
 * The pinned test-suite (68 tests must pass, 9 collection errors are expected and normal) is:
       cd /tmp/mut/{pid}/wt && /venv/bin/python -m pytest -q -p no:cacheprovider --timeout=900 --continue-on-collection-errors
   It must still report "68 passed" with each of your changes applied.

DELIVERABLES (for k = 1, 2), all under /tmp/mut/{pid}/ :
 * patch<k>.diff   - `git diff` of the worktree with ONLY change k applied (must apply with `git apply` to a clean
                     checkout of the same commit; touch only files under snaxc/).
 * demo<k>.py      - a small self-contained program demonstrating the break by EXECUTING real compiler code and
                     checking the property semantically (not by comparing printed text with a golden string):
                     run as `cd <worktree> && PYTHONPATH=<worktree>:/tmp/mut/{pid} /venv/bin/python /tmp/mut/{pid}/demo<k>.py`;
                     exit code 0 and prints PASS on the ORIGINAL code, exit code 1 and prints FAIL (with what differs)
                     when change k is applied. It must start with `import xshim`.
 * meta<k>.json    - {{"property": "{pid}", "summary": "...what was changed...", "site": "file:function",
                     "needs_to_manifest": "...the specific input/sequence/configuration needed...",
                     "why_tests_pass": "...", "ran": ["commands you ran and their outcome"]}}
Finally leave the worktree CLEAN (git checkout -- . inside the worktree) so that both patches apply to it independently.
Use only `git apply`, `git diff`, `git status` and `git checkout -- .` in the worktree; never `git stash`, `git commit`,
`git reset` or anything that touches refs (the worktree shares its repository with other people's work).
Verify everything yourself before finishing: for each k: clean tree -> demo passes; apply patch -> 68 tests pass, demo
fails; revert. Report briefly what you did. If you truly cannot find a second change, deliver one.
Earlier rounds produced many changes in the most central functions of the files named above; prefer a different file or
function than the first one that comes to mind, and a different kind of trigger than "one more nesting level".
Finally: if, while exploring, you notice that the UNMODIFIED code already violates the property on some input (a silent
wrong result, not a crash), describe that input and what you observed in two or three lines at the end of your report.""")
