#!/usr/bin/env python3
"""tools/mergematrix.py <matrix.json> <partial.json>: merge the entries of a partial seed-matrix run into matrix.json."""
import json
import sys

old = json.load(open(sys.argv[1]))
old.update(json.load(open(sys.argv[2])))


def key(s):
    p, k = s.split("_")
    return (p, int(k))


open(sys.argv[1], "w").write("{\n" + ",\n".join(' "%s": %s' % (k, json.dumps(old[k])) for k in sorted(old, key=key)) + "\n}\n")
print(len(old), "entries")
