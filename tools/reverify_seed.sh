#!/bin/bash
# tools/reverify_seed.sh <seed dir name>: re-confirm a kept seed against /repo's current HEAD in a fresh scratch worktree
S=/verif/seeded/$1; WT=/tmp/reverify_$1
git -C /repo worktree add -q --detach $WT HEAD || exit 9
run_demo() { ( cd $WT && PYTHONPATH=$WT:/verif/tools/shim timeout 900 /venv/bin/python $S/demo.py > /tmp/reverify_$1.out 2>&1; echo $? ); }
A=$(run_demo)
( cd $WT && git apply $S/patch.diff ) || { echo "$1: patch does not apply"; git -C /repo worktree remove --force $WT; exit 9; }
T=$(cd $WT && /venv/bin/python -m pytest -q -p no:cacheprovider --timeout=900 --continue-on-collection-errors 2>&1 | tail -1)
B=$(run_demo)
git -C /repo worktree remove --force $WT
echo "$1 @$(git -C /repo rev-parse --short HEAD): demo clean rc=$A; tests: $T; demo patched rc=$B"
