#!/bin/bash
# tools/seedmatrix.sh [tier]: apply every kept seeded change to /repo in turn, run the check of its property, revert.
# Writes seeded/matrix.json: which check reports which change (rc 1 + VIOLATION line = caught).
# ONLY="C07 C11" restricts the run to the seeds of these properties; the other entries of matrix.json are kept.
TIER=${1:-quick}
cd /verif
OUT=/verif/seeded/matrix.json
echo "{" > $OUT.tmp
first=1
for d in seeded/C*_*; do
  s=$(basename $d); pid=${s%%_*}
  if [ -n "$ONLY" ] && ! echo " $ONLY " | grep -q " $pid "; then continue; fi
  if ! git -C /repo apply --check /verif/$d/patch.diff 2>/dev/null; then res="patch does not apply"; rc=9; nv=0; sigs=""; else
    tools/seedtest.sh /verif/$d/patch.diff $pid $TIER > /tmp/seedmatrix_$s.log 2>&1
    rc=$(grep -o "^rc=[0-9]*" /tmp/seedmatrix_$s.log | cut -d= -f2)
    nv=$(grep -c "^VIOLATION" /tmp/seedtest_$pid.log)
    sigs=$(grep -o "signature=[^ ]*" /tmp/seedtest_$pid.log | sort -u | head -4 | tr '\n' ' ' | sed 's/"/\\"/g')
    res=$([ "$rc" = "1" ] && [ "$nv" -gt 0 ] && echo caught || echo MISSED)
  fi
  [ $first = 1 ] || echo "," >> $OUT.tmp; first=0
  printf ' "%s": {"property": "%s", "tier": "%s", "result": "%s", "rc": %s, "violation_lines": %s, "signatures": "%s"}' "$s" "$pid" "$TIER" "$res" "${rc:-9}" "${nv:-0}" "$sigs" >> $OUT.tmp
  echo "$s $res rc=$rc violations=$nv"
done
echo "" >> $OUT.tmp; echo "}" >> $OUT.tmp
if [ -n "$ONLY" ]; then python3 tools/mergematrix.py $OUT $OUT.tmp && rm -f $OUT.tmp; else mv $OUT.tmp $OUT; fi
