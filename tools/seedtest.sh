#!/bin/bash
# tools/seedtest.sh <patch.diff> <pid> [tier] : apply a seeded change to /repo, run the check, revert. Prints rc.
P=$1; PID=$2; TIER=${3:-quick}
cd /repo || exit 9
if [ -n "$(git status --porcelain)" ]; then echo "repo dirty, refusing"; exit 9; fi
git apply "$P" || { echo "patch does not apply"; exit 9; }
cd /verif
mkdir -p /tmp/seedtest_ev; cp evidence/$PID.json /tmp/seedtest_ev/ 2>/dev/null
./check $PID --tier $TIER > /tmp/seedtest_$PID.log 2>&1; RC=$?
cp /tmp/seedtest_ev/$PID.json evidence/ 2>/dev/null
git -C /repo checkout -- . 
rm -f /verif/replays/${PID}_*.json
grep -E "^VIOLATION|signature=|^\[$PID\]|HARNESS" /tmp/seedtest_$PID.log | head -8
echo "rc=$RC"
