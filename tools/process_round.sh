#!/bin/bash
# tools/process_round.sh <round dir> <koff> <pid...>: confirm the two seeded changes of each sub-agent, keep them under
# seeded/<pid>_<k+koff>, run the quick check of the property against each, then remove the scratch worktree.
R=$1; KOFF=$2; shift 2
for P in "$@"; do
  for K in 1 2; do
    ROUND=$R KOFF=$KOFF /verif/tools/verify_seed3.sh $P $K 2>&1 | tail -2 | head -1
  done
  for K in 1 2; do
    S=${P}_$((K+KOFF))
    if [ -f /verif/seeded/$S/patch.diff ]; then
      echo "== $S: $(python3 -c "import json;print(json.load(open('/verif/seeded/$S/meta.json')).get('site','')[:110])")"
      /verif/tools/seedtest.sh /verif/seeded/$S/patch.diff $P quick 2>&1 | grep -E "signature|rc=" | cut -c1-170 | sed 's/detail=.*//' | head -3
    fi
  done
  git -C /repo worktree remove --force $R/$P/wt 2>/dev/null; rm -rf $R/$P
done
git -C /repo worktree prune
