#!/bin/bash
# tools/verify_seed.sh <pid> <k>: confirm a sub-agent's seeded change in its scratch worktree, then keep it under seeded/.
PID=$1; K=$2; D=${ROUND:-/tmp/mut3}/$PID; WT=$D/wt
cd $WT || exit 9
git checkout -q -- . ; git clean -fdq
run_demo() { ( cd $WT && PYTHONPATH=$WT:$D timeout 600 /venv/bin/python $D/demo$K.py > $D/demo$K.out 2>&1; echo $? ); }
A=$(run_demo)
git apply $D/patch$K.diff || { echo "patch does not apply"; exit 9; }
T=$(/venv/bin/python -m pytest -q -p no:cacheprovider --timeout=900 --continue-on-collection-errors 2>&1 | tail -1)
B=$(run_demo)
FILES=$(git diff --name-only | tr '\n' ' ')
git checkout -q -- . ; git clean -fdq
echo "$PID/$K: demo clean rc=$A, tests with patch: $T, demo patched rc=$B, files: $FILES"
if [ "$A" = "0" ] && [ "$B" != "0" ] && echo "$T" | grep -q "68 passed"; then
  S=/verif/seeded/${PID}_$((K+${KOFF:-2})); mkdir -p $S
  cp $D/patch$K.diff $S/patch.diff; cp $D/demo$K.py $S/demo.py
  /venv/bin/python - <<PY
import json
m=json.load(open("$D/meta$K.json"))
m["confirmed_by_main"]={"demo_on_clean_rc":$A,"tests_with_patch":"$T","demo_with_patch_rc":$B,"files":"$FILES".split(),
  "how":"tools/verify_seed.sh in the sub-agent's scratch worktree (git worktree of /repo HEAD), removed afterwards"}
m["breaks_property"]="$PID"
json.dump(m,open("$S/meta.json","w"),indent=1)
PY
  echo "kept $S"
else
  echo "NOT CONFIRMED"
fi
