import xdsl.irdl.operations as _ops
_orig = _ops.OpDef.from_pyrdl
def _from_pyrdl(pyrdl_def):
    for k in pyrdl_def.__mro__:
        v = k.__dict__.get("irdl_options")
        if isinstance(v, list):
            setattr(k, "irdl_options", tuple(v))
    return _orig(pyrdl_def)
_ops.OpDef.from_pyrdl = staticmethod(_from_pyrdl)
