#!/usr/bin/env python3
"""tools/mktable.py: rewrite the seed table of DESIGN.md (between the markers) from seeded/matrix.json and the
seeds' meta.json files."""
import json
import os
import re

V = "/verif"
mx = json.load(open(f"{V}/seeded/matrix.json"))
rows = ["| seed | site | result | first signature reported |", "|------|------|--------|--------------------------|"]


def key(s):
    p, k = s.split("_")
    return (p, int(k))


for s in sorted(mx, key=key):
    meta = {}
    try:
        meta = json.load(open(f"{V}/seeded/{s}/meta.json"))
    except Exception:
        pass
    site = str(meta.get("site", "")).split(" (")[0].split(" + ")[0].strip()[:110]
    sig = (mx[s].get("signatures") or "").split(" ")[0].replace("signature=", "")
    rows.append(f"| {s} | `{site}` | {mx[s]['result']} | `{sig}` |")
txt = open(f"{V}/DESIGN.md").read()
a, b = "<!-- seed-table-begin -->", "<!-- seed-table-end -->"
if a in txt:
    txt = re.sub(re.escape(a) + ".*?" + re.escape(b), a + "\n" + "\n".join(rows) + "\n" + b, txt, flags=re.S)
else:
    # first use: replace the existing table (header line up to the blank line after the last row)
    i = txt.index("| seed | site | result | first signature reported |")
    j = txt.index("\n\n", i)
    txt = txt[:i] + a + "\n" + "\n".join(rows) + "\n" + b + txt[j:]
open(f"{V}/DESIGN.md", "w").write(txt)
print(len(rows) - 2, "rows")
