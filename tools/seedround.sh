#!/bin/bash
# tools/seedround.sh <round dir> <pid...>: prepare scratch worktrees for a round of mutation sub-agents
R=$1; shift
for P in "$@"; do
  mkdir -p $R/$P; cp /tmp/w/agent_xshim.py $R/$P/xshim.py
  git -C /repo worktree add -q --detach $R/$P/wt HEAD
  python3 /verif/tools/mutprompt.py $P | sed "s#/tmp/mut/#$R/#g" > $R/$P/prompt.txt
done
