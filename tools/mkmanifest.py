#!/usr/bin/env python3
"""Regenerates MANIFEST.json from the table below (keeps it valid at all times)."""
import json
import os

ROOT = os.path.dirname(os.path.dirname(os.path.abspath(__file__)))

TV = "translation_validation"
OT = "other"

# pid -> (category, text, note, technique, design_ref)
CHECKS = {
    "C19": (OT,
            "Bounded symbolic execution of the real canonicalisers/converters (canonicalize_expr/map, AffineTransform, "
            "AccessPattern, StridePattern.canonicalize, pack_bitlist) with z3 int proxies; every semantic-equality and "
            "idempotence obligation is discharged as unsat(pc & !phi) over unbounded symbolic numbers; structures "
            "(tree shapes, matrix shapes, bound vectors) are enumerated to a stated size. Print/parse is checked on "
            "solver-chosen representatives only.",
            "xdsl 0.70.0 + import shim trusted; divisors concrete; StridePattern bounds enumerated 0..3/0..5; "
            "print->parse is representative-based, not for-all.",
            "symbolic execution of the real Python (int proxies) + z3 unsat queries per path", "3/C19"),
    "C10": (OT,
            "The real TSL classes run on z3 int proxies (symbolic steps, offsets, starting stride, indices, run-time "
            "sizes; tile bounds enumerated because they become divisors). Affine map, canonical form, from_strides, "
            "common contiguous block, the IR emitted by get_bound_ops/get_step_ops and the subview pointer IR of "
            "convert-memref-to-arith (executed by the symbolic IR interpreter) are each proved equal to one reference "
            "function Lambda(x)=sum digit*step by unsat queries. numpy enumeration views and print/parse are compared "
            "with the solver on concrete/representative layouts only.",
            "offset is carried separately from Lambda by every view; dynamic sizes multiples of inner tiles; "
            "tile-aligned subview offsets; mathematical-int index arithmetic (no overflow) for emitted IR.",
            "symbolic execution of the real Python + symbolic IR interpreter + z3 unsat queries", "3/C10"),
    "C03": (OT,
            "The real SchedulePattern/Schedule transformations and the real scheduler_backtrack run with symbolic, "
            "unbounded iteration bounds; for every result on every path z3 proves it is a bijective re-indexing of "
            "the original box (ownership/weights read off the concrete matrices of all operands; range, injectivity "
            "and cardinality are unsat queries under the path condition). The dart-scheduler pass is covered on "
            "concrete shapes with the same oracle; the operation's access maps are read independently of the compiler's "
            "from_affine_map (values at the origin and unit points, linearity checked on the box; non-linear maps must be refused). "
            "Counterexamples are replayed by enumerating both boxes.",
            "access matrices, tile sizes and templates are concrete (enumerated families incl. the real gemmx/alu/xdma "
            "templates); at most 40 yields per path.",
            "symbolic execution of the real Python + z3 unsat queries (LIA) per path", "3/C03"),
    "C15": (TV,
            "Generated loops of the recognised shape (index computation with three index-dependent subviews, then 2..4 barrier-"
            "separated stages of memref.copy / linalg.generic on tile buffers and subviews; load-compute-store chains and free "
            "buffer assignments, one or two operations per stage; constant and symbolic upper bounds, lower bounds and steps) run "
            "before and after pipeline-canonicalize-for, construct-pipeline, pipeline-duplicate-buffers, unroll-pipeline on a "
            "two-core buffer machine (z3 arrays, symbolic contents, tile offsets as terms in the bounds). z3 proves per path: every "
            "stage runs once per iteration with the same multiset of tile offsets; no tile outside the iteration range is touched; "
            "every stage execution reads the values it read in the sequential loop; argument buffers end equal; inside every "
            "barrier epoch no data-mover access conflicts with a compute-core access (all permitted interleavings agree).",
            "programs sampled by VERIF_SEED; trip counts 0..6 by unrolling; tile 8, buffers 64; assignments the compiler declines "
            "(NotImplementedError) are rejected inputs; write/write pairs on temporaries without reader are not counted as races; one "
            "known finding (dynamic upper bound below stages-1) suppressed by signature.",
            "bounded symbolic execution of before/after IR on z3 arrays + per-epoch region disjointness and multiset equalities discharged by z3", "3/C15"),
    "C16": (OT,
            "Same symbolic scheduler runs as C03: per yielded schedule z3 proves inner bounds <= template bounds under "
            "the path condition; inner sub-matrices vs template by exact row-space equality (z3 over rationals); the "
            "constraint predicates are executed with fully symbolic matrix entries and proved equal to declarative "
            "definitions. TemplatePattern.matches (float SVD) is not encodable: run on enumerated concrete matrices "
            "against the exact solver oracle.",
            "element sizes concrete; matches() sub-clause is enumeration + solver oracle, not a for-all claim.",
            "symbolic execution of the real Python + z3 unsat queries; exact LRA oracle for the SVD matcher", "3/C16"),
    "C01": (TV,
            "Translation validation of the real accfg-trace-states + accfg-dedup (hoist on/off) on generated accfg "
            "programs (grammar in DESIGN section 2: full-field setups+launch+await, scf.for, scf.if, func/llvm calls "
            "with and without the no-effects annotation): original and deduplicated IR are executed by the symbolic IR "
            "interpreter on one abstract CSR machine on shared paths (arguments, loop bounds/steps, branch conditions, "
            "initial registers and call clobbers symbolic; loops unrolled to K); z3 proves per launch that every "
            "field the original had written holds the same value, launch values and the launch/await/call sequence "
            "are equal. Use of an undefined SSA value is a violation.",
            "programs exhaustive to 3/4 statements (1 accelerator) + seeded samples (2 accelerators, depth 2/3); "
            "K=2 quick / 3 thorough; step>0, bounds < 4096; calls clobber all registers unless annotated; passes "
            "that crash or do not terminate on an input are tallied as rejected.",
            "bounded symbolic execution of before/after IR on an abstract CSR machine + z3 equivalence queries", "3/C01"),
    "C07": (OT,
            "The traced IR produced by the real accfg-trace-states is executed symbolically on the abstract CSR "
            "machine; every time a !accfg.state value is defined or consumed (setup in/out state, loop block argument "
            "on each iteration, scf.if/scf.for results, launch state) the real infer_state_of is called and z3 proves "
            "reg[field]==value for each pair it returns, under the path condition.",
            "same program grammar, bounds and machine as C01; the machine's clobber rule is independent of the "
            "compiler's has_accfg_effects.",
            "bounded symbolic execution + z3 validity of the real analysis result at every program point", "3/C07"),
    "C06": (TV,
            "Translation validation of the real accfg-config-overlap (pipelines trace->overlap and trace->dedup->overlap) "
            "on generated accfg programs incl. loops with extra loop-carried values, setup values computed by chains of "
            "pure ops and shared subexpressions: input and output IR run on the abstract CSR machine on shared symbolic "
            "paths (lb/ub/step, arguments, branch conditions symbolic; K-bounded unrolling); z3 proves equal "
            "launch/await sequences and equal observed registers per launch; any SSA value read before its definition "
            "in the output is a violation; module.verify() must pass.",
            "same grammar/machine/assumptions as C01; K=3 quick / 4 thorough.",
            "bounded symbolic execution of before/after IR + z3 equivalence queries", "3/C06"),
    "C04": (TV,
            "(a) Translation validation of convert-accfg-to-csr after trace/dedup/overlap: accfg-level IR on an abstract "
            "machine vs lowered IR on a concrete CSR machine (inline-asm csrw/csrr and RoCC .insn interpreted) on "
            "shared symbolic paths; z3 proves the CSR event sequence is the prescribed expansion (one write per field "
            "at its declared address with its value, launch writes, the barrier style's await pattern, calls in "
            "order), RoCC instructions carry the values in effect for rs1/rs2, and no accfg op / state value "
            "survives. (b) Address maps of the real generate_acc_op for enumerated configurations proved injective "
            "(incl. barrier and reserved status registers) and aligned with field tuples; xDMA multicast size symbolic.",
            "test accelerators are thin subclasses of the real lowering base classes; polling bounded to 3 forking "
            "status reads per path; streamer configurations sampled by VERIF_SEED; one known finding (RoCC default-0 "
            "partner when state unknown) listed in known_findings.json.",
            "bounded symbolic execution of before/after IR on abstract/concrete CSR machines + z3; symbolic address-map injectivity", "3/C04"),
    "C17": (TV,
            "Translation validation of the real pipeline-canonicalize-for and reuse-memref-allocs: generated loop nests "
            "(depth<=3, constant upper bounds as symbolic holes planted into arith.constant, steps {1,2,3,4,5,7}, dynamic "
            "bounds from symbolic arguments, effectful ops before/after/inside inner loops) and loops with allocs/"
            "memref.dim/subviews/affine.min sizes are executed before and after by the symbolic IR interpreter; z3 "
            "proves identical traces of side-effecting ops with their evaluated index/size operands on every path.",
            "hole ranges cover trip counts 0..3 (0..2 in nests) incl. non-multiples of the step; int-mode index "
            "arithmetic; allocations compared by buffer sizes reaching users; two known findings (imperfect-nest merge, "
            "affine.min replaced by its maximum) are blessed by upstream filecheck expectations and listed.",
            "bounded symbolic execution of before/after IR + z3 trace-equality queries", "3/C17"),
    "C18": (TV,
            "Generated linalg bodies (all wirings of the kernels' op-kind sequences up to 4 ops, seeded rewirings of the "
            "6-op qmac body, all verifying width combinations) go through the real convert-linalg-to-kernel and "
            "convert-kernel-to-linalg; body before / expanded body after are evaluated over bit-vectors and z3 proves "
            "f_before == f_after for all inputs (QF_BV). Directly constructed kernel ops are expanded and proved equal to "
            "the kernel's meaning. LowerRescale's arithmetic is proved equal to an SMT transcription of the in-repo golden "
            "model with symbolic input/zero points/clamp bounds/multiplier/shift. tosa->kernel: parameters carried over, "
            "clamp range = saturation range, no wrap in the final truncation. Dispatch type clause: finite side-check.",
            "rescale: shift 1..62, pre-shift value fits int32, multiplier/shift planted as symbolic holes in the emitted "
            "IR (verbatim copy checked by markers); two known findings (dispatch type check never rejects; rescale "
            "expansion ignores double_round) listed.",
            "symbolic execution of before/after bodies + QF_BV equivalence queries; finite enumeration for the dispatch clause", "3/C18"),
    "C20": (OT,
            "Merge histories of 1..5 kernel bodies (int and float binary ops with differing operand routing) are merged with the "
            "real encode/combine API; after each merge every kernel merged so far is decoded with the real decode_abstract_graph; "
            "a PE evaluator (IR interpreter) turns the merged PE under the decoded switch values into a term and z3 proves "
            "PE(inputs, switches) == kernel(inputs) for all inputs (32-bit bit-vectors; floats as uninterpreted functions); "
            "undecodable earlier kernels and switch-count mismatches (decoded / true switches / accelerator fields) are violations.",
            "pool of 14 int and 7 float kernels, histories exhaustive to length 2, sampled (VERIF_SEED) to 3/4/5; kernels use both "
            "data inputs (decode's documented precondition).",
            "concrete merge/decode through the real API + symbolic evaluation of the merged PE + z3 equivalence (QF_BV/EUF)", "3/C20"),
    "C08": (OT,
            "For enumerated streamer configurations a snax_stream.streaming_region whose stride-pattern entries are symbolic int "
            "proxies (bit-vector backed) is handed to the real convert_to_acc_ops of snax_alu / snax_xdma; the emitted "
            "value-computing ops are evaluated by the symbolic IR interpreter (one z3 term per accfg.setup operand, names from "
            "SetupOp.iter_params) and z3 proves per field NAME that the term equals the specification for all pattern values, "
            "that the setup lists exactly the declared fields in order, and that loop counts equal the number of stream steps. "
            "snax_gemmx is driven through the real scheduler/layout/stream pipeline on enumerated shapes with symbolic zero "
            "points (bit-vector packing identities, K*M / M / loop-bound relations). snax_hwpe_mult checked by name.",
            "configurations sampled by VERIF_SEED with a fork budget; pattern entries in [0,2^31); gemmx stride patterns concrete; "
            "four known findings (alu loop count for multi-dim patterns, xdma enabled_chan field/value mismatch, hwpe names) listed; "
            "snax_phs switch values are covered functionally by C20.",
            "symbolic execution of the real Python + symbolic IR interpreter + z3 (QF_BV) per field name", "3/C08"),
    "C02": (OT,
            "The real pass pipeline (insert-accfg-op, dart-scheduler, [set-memory-layout], dart-layout-resolution, "
            "convert-dart-to-snax-stream, convert_to_acc_ops) is run on enumerated operations/shapes/layouts and observed at "
            "dart.schedule, dart.access_pattern, snax_stream.streaming_region and the programmed accfg.setup constants. z3 proves "
            "over a symbolic iteration point that the resolved strides give the byte address the operand's layout assigns to the "
            "scheduled element (MLIR strided semantics / the TSL function of C10, incl. layout offset) and over a symbolic temporal "
            "step that the streamer machine touches exactly the bytes of the elements scheduled for that step (spatial boxes "
            "expanded); the programmed bounds/strides must realise the stride pattern (collapse only for stride-0 reuse dims).",
            "shapes/layouts enumerated (alu 1-D/2-D i64, gemmx matmul i8->i32/i8, identity/strided/offset/TSL chosen or explicit 2- and "
            "3-level); xDMA extension rewrites, broadcast-bias gemm and rescale-only kernels not covered (four-operand gemm with full-matrix C and the same buffer as both inputs are); known finding: layout offsets dropped.",
            "concrete pipeline observation + z3 queries over symbolic iteration points / temporal steps (LIA with concrete div/mod)", "3/C02"),
    "C09": (OT,
            "The real set-memory-layout (tiled=true/false) runs on dart.schedule ops (generated gemmx schedules over all loop orders of "
            "batch / two-level M tiles / N / K tiles with optional bias operand, the repository's convolution schedule, schedules from "
            "the real dart-scheduler); the TSL of every inserted snax.layout_cast is read and z3 proves over two symbolic indices that "
            "distinct elements get distinct addresses and that tile bounds cover exactly the shape; operands with an explicit layout "
            "stay untouched; ensure_access_granularity is executed with a symbolic unbounded stride on a real op/context.",
            "shapes concrete; snax_gemmx only; i8/i32 operands.",
            "concrete pass runs + z3 injectivity queries over symbolic index pairs; symbolic execution of the padding kernel", "3/C09"),
    "C05": (TV,
            "Translation validation of snax-copy-to-dma: a memref.copy between an enumerated pair of layouts (identity, strided with "
            "offset, tiled-strided depth<=3, static and dynamic shapes/strides/offsets) is lowered by the real pass; the emitted "
            "arith/scf/func.call code runs in the symbolic IR interpreter on a DMA machine (argument order from snax_rt.h). z3 proves "
            "for a symbolic logical index and byte that the destination byte is written by some transfer and that every transfer "
            "writing it reads the corresponding source byte (any transfer order is then right); for static shapes every byte "
            "read/written lies in the source/destination footprint (expanded).",
            "disjoint buffers; equal tile bounds; dynamic sizes 1..3 outer tiles; non-overlapping dynamic strides; int-mode index "
            "arithmetic; known finding: dynamic strides collapsed into one 1-D transfer (blessed by upstream filecheck).",
            "bounded symbolic execution of emitted IR on a DMA transfer-log machine + z3 (LIA with concrete div/mod)", "3/C05"),
    "C11": (OT,
            "(A) memref-to-snax on allocs with none / tiled-strided layouts whose static steps and offset are symbolic holes and whose "
            "dynamic outermost bounds are symbolic run-time sizes: the emitted size computation is evaluated by the IR interpreter and "
            "z3 proves that every element's last byte lies below the allocated size. (B) the real StaticAllocs pattern on allocs with "
            "symbolic sizes and a memory with symbolic start/capacity: z3 proves alignment, window and pairwise disjointness. (C) "
            "minimalloc/auto mode with the absent solver replaced by a stub returning fresh symbolic offsets constrained only by "
            "minimalloc's contract: the harness computes true live ranges from the IR (casts, subviews, nested uses) and z3 asks whether "
            "contract-satisfying offsets can make two truly-live-together buffers overlap; deallocs must follow the last use.",
            "minimalloc's own correctness assumed (contract stub); dynamic mode out of scope; lifetime programs sampled by VERIF_SEED "
            "(2..3 buffers, nesting <= 2).",
            "symbolic execution of the real passes (int proxies as IR constants) + symbolic IR interpreter + z3; nondeterministic contract stub for the external solver", "3/C11"),
    "C12": (TV,
            "Translation validation on a buffer-contents machine: generated functions (arguments, allocations, a constant global, a "
            "memref-typed constant, row-tile subviews with static and symbolic offsets, accelerator operations as linalg.generic / "
            "dart.operation in any order, inside loops with symbolic trip counts and in both branches of conditionals, copies and other consumers on the original "
            "buffers, optional returned buffer, a family where one constant is tiled by several views, a family with one shared cast per allocation at function level over writers two regions below it) run before and after "
            "alloc-to-global, set-memory-space, layout casts to random dense tiled-strided layouts on accelerator operands (as "
            "set-memory-layout places them), realize-memref-casts. Buffers are z3 arrays with symbolic contents; the after-program "
            "addresses every element through an independent evaluation of the layout in the value's type; z3 proves per consumer "
            "and element that it reads the same logical value as in the source program, that final argument contents and returned "
            "buffers agree, and that every subview result type addresses the elements it views; accelerator operands are in L1, the "
            "signature keeps L3/row-major. transform_constant: per dense layout, symbolic logical index over distinct element values "
            "(parametric in the values); realize-memref-casts on modules whose operand is a constant global of every element type (i8..f64, index) reached through casts; transpose_tuple on symbolic contents.",
            "programs and layouts sampled by VERIF_SEED; 4x4/2x4 buffers; K=2 unrolling; accelerator operations are assumed to overwrite "
            "their whole output and not to read it; three known findings (one fill and one copy-back per cast value) are suppressed "
            "by signature only, using a taint analysis of the after-run that never decides an obligation.",
            "bounded symbolic execution of before/after IR on z3 arrays + per-element equalities and layout-address identities discharged by z3", "3/C12"),
    "C13": (OT,
            "Generated functions mixing memref.copy (data mover), linalg.generic and dart streaming regions (compute core / xDMA, incl. rescale kernels between i32 and i8 buffers) and un-dispatched consumers on shared "
            "allocations and function arguments, subviews with symbolic offsets, nested loops with symbolic and constant (partial "
            "last tile, single trip) ranges, conditionals with symbolic conditions, pre-existing barriers and deallocs go through the real insert-sync-barrier. The output "
            "is executed on a barrier-synchronised multi-core machine (symbolic IR interpreter): barriers cut each path into epochs "
            "and for every pair of accesses in one epoch that can come from different cores with at least one write, z3 proves the "
            "two regions (root buffer, symbolic element interval) disjoint under the path condition; every path executes the same "
            "number of barriers on every core.",
            "programs sampled by VERIF_SEED; K=2 unrolling (back edge = iteration k+1 after k); nesting <= 2; three recorded known "
            "findings (alias views, un-dispatched reader before a dispatched writer) are suppressed by signature only.",
            "bounded symbolic execution of the pass output on an epoch/race machine; region disjointness discharged by z3 per access pair", "3/C13"),
    "C14": (TV,
            "Translation validation of dispatch-regions{nb_cores=N} (N in {2,3,4,8}): generated functions (nested scf.for/scf.if, "
            "memref.copy, linalg.generic, dart streaming regions on snax_gemmx/snax_xdma with kernels the xDMA extensions implement and kernels they do not, other ops, adjacent and separated, optionally "
            "two blocks, loops already split into pipeline.stage blocks) run before/after the pass in the IR interpreter with a symbolic core id (0<=id<N), symbolic loop bounds and "
            "branch conditions; on every path the trace of tagged effectful ops must equal the original trace filtered by an "
            "independent classification (data movement iff id==N-1, compute iff id==0, everything else always; the table of extension kernels is written down in the harness), order preserved.",
            "programs sampled by VERIF_SEED; K=2 unrolling; the solver's share is small (three classes of core id + control paths); "
            "the upstream function-constant-pinning pass is run on the single-block programs after dispatching and the pinned module must give the same per-core trace (its own correctness beyond these programs is not claimed).",
            "bounded symbolic execution of before/after IR with a symbolic core id + trace comparison per path", "3/C14"),
}

NOT_YET = "check not built yet (work in progress in this round); no claim is made"
NA = {}

ALL = [f"C{i:02d}" for i in range(1, 21)]


def main():
    checks = []
    for pid in ALL:
        if pid not in CHECKS:
            continue
        cat, text, note, tech, ref = CHECKS[pid]
        checks.append(dict(
            property_id=pid,
            quick_cmd=f"./check {pid} --tier quick",
            thorough_cmd=f"./check {pid} --tier thorough",
            evidence_file=f"evidence/{pid}.json",
            replay_cmd_template=f"./check {pid} --replay {{path}}",
            engine="vfy",
            level_claimed=dict(category=cat, text=text, design_ref=f"DESIGN.md section {ref}"),
            level_note=note,
            technique=tech,
        ))
    na = [dict(property_id=p, reason=NA.get(p, NOT_YET)) for p in ALL if p not in CHECKS]
    m = dict(
        version=1,
        setup_cmd="./setup.sh",
        hooks=dict(
            guard="SNAX_MLIR_VERIF",
            enable="no source hooks exist: checks import /repo's working tree in-process with SNAX_MLIR_VERIF=1 "
                   "set and a harness-side xdsl import shim (vfy/xshim.py)",
            baseline_off_cmd="cd /repo && /venv/bin/python -m pytest -ra -q -p no:cacheprovider --timeout=900 "
                             "--continue-on-collection-errors",
            source_commits=[],
            add_only=True,
        ),
        engines=[dict(name="vfy", path="vfy/", serves_properties=sorted(CHECKS),
                      kind_free_text="symbolic int proxies running the real Python + symbolic interpreter for "
                                     "emitted xDSL IR; z3 decides every obligation; counterexamples replayed on "
                                     "the real code")],
        checks=checks,
        notes="Exit 0 held / 1 VIOLATION / 2 harness error (inconclusive is tallied in evidence, never success). "
              "known_findings.json lists recorded defects by signature.",
        not_applicable=na,
    )
    with open(os.path.join(ROOT, "MANIFEST.json"), "w") as f:
        json.dump(m, f, indent=1)
    print("claimed", sorted(CHECKS), "n/a", [x["property_id"] for x in na])


if __name__ == "__main__":
    main()
