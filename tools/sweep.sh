#!/bin/bash
# tools/sweep.sh <tier> <seed...> : run every claimed check with the given seeds, print summary lines (background use)
TIER=$1; shift
IDS=$(python3 -c "import json;print(' '.join(c['property_id'] for c in json.load(open('MANIFEST.json'))['checks']))")
for SEED in "$@"; do for P in $IDS; do
  OUT=$(VERIF_CASE_TIMEOUT=${VERIF_CASE_TIMEOUT:-30} ./check $P --tier $TIER --seed $SEED 2>&1)
  echo "seed=$SEED $(echo "$OUT" | grep -E "^\[$P\]")"
  echo "$OUT" | grep -E "^VIOLATION|signature=|HARNESS" | cut -c1-400
done; done
