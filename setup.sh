#!/bin/bash
# Build the overlay venv used by every check (offline, idempotent).
set -e
cd "$(dirname "$0")"
V="${VERIF_VENV:-$(pwd)/.venv}"
if [ ! -x $V/bin/python ] || ! $V/bin/python -c "import z3, xdsl" 2>/dev/null; then
  rm -rf $V
  /venv/bin/python -m venv $V
  SP=$($V/bin/python -c "import sysconfig; print(sysconfig.get_paths()['purelib'])")
  printf '/venv/lib/python3.12/site-packages\n' > $SP/_verif_overlay.pth
  PIP_NO_INDEX=1 $V/bin/pip install -q --no-index --find-links /opt/veriftools/wheels z3-solver crosshair-tool cvc5 jsonschema >/dev/null 2>&1 || \
  PIP_NO_INDEX=1 $V/bin/pip install -q --no-index --find-links /opt/veriftools/wheels z3-solver crosshair-tool
fi
$V/bin/python -c "import z3, xdsl; print('venv ok', z3.get_version_string(), xdsl.__version__ if hasattr(xdsl,'__version__') else '')"
